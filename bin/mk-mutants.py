#!/usr/bin/env python3
"""Generates mutants/*.patch from the specs below by editing /repo's working tree (restored
afterwards), keeps only those that still compile and pass the repository's own test suite,
and writes mutants/index.json (patch -> description, properties expected to be violated).

Usage: bin/mk-mutants.py [name ...]     (no names = all)
"""
import json, os, subprocess, sys

REPO = "/repo"
ROOT = os.path.dirname(os.path.dirname(os.path.abspath(__file__)))
OUT = os.path.join(ROOT, "mutants")

# (name, file, old, new, description, properties whose check must report a violation)
SPECS = [
 ("remove_row_keeps_cols", "src/toodee.rs",
  "        self.num_rows -= 1;\n        if self.num_rows == 0 {\n            self.num_cols = 0;\n        }\n        drain",
  "        self.num_rows -= 1;\n        drain",
  "remove_row forgets to zero num_cols when the last row is removed", ["C01", "C07"]),
 ("draincol_final_copy_plus_one", "src/toodee.rs",
  "                    ptr::copy(src, dest, orig_cols - col - 1);",
  "                    ptr::copy(src, dest, orig_cols - col);",
  "DrainCol::drop copies one element too many for the last row fragment (reads/writes past the buffer end for the last column)", ["C07", "C01", "C05"]),
 ("view_swap_rows_num_cols", "src/view.rs",
  "            let (first, rest) = self.data.get_unchecked_mut(r1 * self.stride..).split_at_mut(num_cols);",
  "            let (first, rest) = self.data.get_unchecked_mut(r1 * num_cols..).split_at_mut(num_cols);",
  "TooDeeViewMut::swap_rows computes the first row offset with num_cols instead of the stride", ["C04", "C13"]),
 ("rows_nth_ignores_skip", "src/iter.rs",
  "        let (start, overflow) = n.overflowing_mul(self.cols + self.skip_cols);\n        if start >= self.v.len() || overflow {\n            self.v = &[];\n        } else {\n            let (_, snd) = self.v.split_at(start);",
  "        let (start, overflow) = n.overflowing_mul(self.cols);\n        if start >= self.v.len() || overflow {\n            self.v = &[];\n        } else {\n            let (_, snd) = self.v.split_at(start);",
  "Rows::nth jumps by n*cols instead of n*(cols+skip_cols): wrong rows for strided views", ["C08"]),
 ("col_nth_back_uses_skip", "src/iter.rs",
  "        let (adj, overflow) = n.overflowing_mul(1 + self.skip);\n        if adj >= self.v.len() || overflow {\n            self.v = &[];\n        } else {\n            // adj < self.v.len(), so no check required\n            unsafe {\n                self.v = self.v.get_unchecked(..self.v.len() - adj);",
  "        let (adj, overflow) = n.overflowing_mul(self.skip);\n        if adj >= self.v.len() || overflow {\n            self.v = &[];\n        } else {\n            // adj < self.v.len(), so no check required\n            unsafe {\n                self.v = self.v.get_unchecked(..self.v.len() - adj);",
  "Col::nth_back jumps by n*skip instead of n*(1+skip)", ["C09"]),
 ("flatten_nth_back_no_adjust", "src/flattenexact.rs",
  "            n -= iter_skip * num_cols;\n            self.frontiter.as_mut()?.nth_back(n)",
  "            self.frontiter.as_mut()?.nth_back(n)",
  "FlattenExact::nth_back does not subtract the skipped rows before falling through to the front row", ["C10"]),
 ("view_accepts_end_up_to_stride", "src/view.rs",
  "    assert!(end.0 <= toodee.num_cols());",
  "    assert!(end.0 <= stride);",
  "view()/view_mut() validate end.0 against the stride instead of the width: a nested view may reach into the gap", ["C03"]),
 ("copy_within_less_forward", "src/copy.rs",
  "                for r in (top_left.1..bottom_right.1).rev() {",
  "                for r in top_left.1..bottom_right.1 {",
  "copy_within iterates source rows forwards when the destination lies below: overlapping copies read overwritten rows", ["C14"]),
 ("sort_by_row_unstable", "src/sort.rs",
  "        sort_data.sort_by(|i, j| compare(i.1, j.1));\n        \n        // Build up a \"trace\" of column swaps to apply",
  "        sort_data.sort_unstable_by(|i, j| compare(i.1, j.1));\n        \n        // Build up a \"trace\" of column swaps to apply",
  "sort_by_row uses an unstable sort", ["C16"]),
 ("swap_trace_no_fixup", "src/sort.rs",
  "                if inv_i > i {\n                    ordering.get_unchecked_mut(inv_i).0 = other;\n                    ordering.get_unchecked_mut(other).1 = inv_i;\n                }",
  "                ordering.get_unchecked_mut(inv_i).0 = other;",
  "build_swap_trace drops the inverse-permutation bookkeeping", ["C16", "C17"]),
 ("translate_mid_wrap_off_by_one", "src/translate.rs",
  "                    if mid >= num_cols {\n                        mid -= num_cols;\n                    }",
  "                    if mid > num_cols {\n                        mid -= num_cols;\n                    }",
  "translate_with_wrap lets the running column offset reach num_cols", ["C15"]),
 ("serde_len_check_gt", "src/serde.rs",
  "        if product != data.len() {",
  "        if product > data.len() {",
  "deserialisation only rejects data that is too short", ["C19"]),
 ("serde_no_zero_rule", "src/serde.rs",
  "        if (num_cols == 0) != (num_rows == 0) {",
  "        if false && (num_cols == 0) != (num_rows == 0) {",
  "deserialisation no longer rejects exactly one zero dimension (from_vec then panics)", ["C19"]),
 ("insert_row_dims_not_tracked", "src/toodee.rs",
  "            self.num_rows = index;\n            if index == 0 {\n                self.num_cols = 0;\n            }\n",
  "",
  "insert_row keeps the old dimensions while the iterator runs (panic safety regression)", ["C11"]),
 ("remove_col_dims_not_zeroed", "src/toodee.rs",
  "            self.num_cols = 0;\n            self.num_rows = 0;\n            DrainCol {",
  "            DrainCol {",
  "remove_col does not zero the dimensions for the drain's lifetime (leak safety regression)", ["C12"]),
 ("swap_cols_one_assert", "src/ops.rs",
  "        assert!(c1 < num_cols);\n        assert!(c2 < num_cols);",
  "        assert!(c1 < num_cols);",
  "swap_cols only checks the first column index", ["C13"]),
 ("toodee_swap_one_col_check", "src/toodee.rs",
  "        assert!(col1 < num_cols && col2 < num_cols);",
  "        assert!(col1 < num_cols);",
  "TooDee::swap only checks the first column", ["C13"]),
 ("view_index_row_num_cols", "src/view.rs",
  "impl<'a, T> Index<usize> for TooDeeView<'a, T> {\n    type Output = [T];\n\n    fn index(&self, row: usize) -> &Self::Output {\n        assert!(row < self.num_rows);\n        let start = row * self.stride;",
  "impl<'a, T> Index<usize> for TooDeeView<'a, T> {\n    type Output = [T];\n\n    fn index(&self, row: usize) -> &Self::Output {\n        assert!(row < self.num_rows);\n        let start = row * self.num_cols;",
  "Index<usize> for TooDeeView multiplies by num_cols instead of the stride", ["C02", "C03"]),
 ("col_index_unchecked_mul", "src/iter.rs",
  "impl<'a, T> Index<usize> for Col<'a, T> {\n    type Output = T;\n    /// # Examples\n    /// \n    /// ```\n    /// use toodee::{TooDee,TooDeeOps,TooDeeOpsMut};\n    /// let toodee : TooDee<u32> = TooDee::new(10, 5);\n    /// let col = toodee.col(2);\n    /// assert_eq!(col[3], 0);\n    /// ```\n    fn index(&self, idx: usize) -> &Self::Output {\n        // a plain `idx * (1 + self.skip)` wraps around for huge `idx` when overflow checks are off\n        let pos = idx.checked_mul(1 + self.skip).expect(\"column index out of bounds\");",
  "impl<'a, T> Index<usize> for Col<'a, T> {\n    type Output = T;\n    /// # Examples\n    /// \n    /// ```\n    /// use toodee::{TooDee,TooDeeOps,TooDeeOpsMut};\n    /// let toodee : TooDee<u32> = TooDee::new(10, 5);\n    /// let col = toodee.col(2);\n    /// assert_eq!(col[3], 0);\n    /// ```\n    fn index(&self, idx: usize) -> &Self::Output {\n        let pos = idx.wrapping_mul(1 + self.skip);",
  "Col indexing multiplies without overflow detection (wraps for huge indices)", ["C02", "C09"]),
 ("copy_from_toodee_len_only", "src/copy.rs",
  "impl<T> CopyOps<T> for TooDee<T> {\n\n    fn copy_from_slice(&mut self, src: &[T]) where T: Copy {\n        self.data_mut().copy_from_slice(src);\n    }\n    \n    fn clone_from_slice(&mut self, src: &[T]) where T: Clone {\n        self.data_mut().clone_from_slice(src);\n    }\n    \n    fn copy_from_toodee(&mut self, src: &impl TooDeeOps<T>) where T : Copy {\n        assert_eq!(self.size(), src.size());",
  "impl<T> CopyOps<T> for TooDee<T> {\n\n    fn copy_from_slice(&mut self, src: &[T]) where T: Copy {\n        self.data_mut().copy_from_slice(src);\n    }\n    \n    fn clone_from_slice(&mut self, src: &[T]) where T: Clone {\n        self.data_mut().clone_from_slice(src);\n    }\n    \n    fn copy_from_toodee(&mut self, src: &impl TooDeeOps<T>) where T : Copy {\n        assert_eq!(self.num_cols() * self.num_rows(), src.num_cols() * src.num_rows());",
  "TooDee::copy_from_toodee compares areas instead of sizes ((2,3) vs (3,2) accepted)", ["C14"]),
 ("insert_row_no_reserve", "src/toodee.rs",
  "        self.reserve(num_cols);\n\n        let start = index * num_cols;",
  "        let start = index * num_cols;",
  "insert_row forgets to reserve capacity: writes past the allocation when there is no spare capacity", ["C06", "C01", "C05"]),
 ("insert_col_reserve_one", "src/toodee.rs",
  "        self.reserve(num_rows);\n        \n        let old_len = self.data.len();",
  "        self.reserve(1);\n        \n        let old_len = self.data.len();",
  "insert_col reserves a single element instead of num_rows", ["C06", "C01", "C05"]),
 ("new_no_zero_rule", "src/toodee.rs",
  "    where T: Default {\n        if num_cols == 0 || num_rows == 0 {\n            assert_eq!(num_rows, num_cols);\n        }\n",
  "    where T: Default {\n",
  "TooDee::new accepts exactly one zero dimension again", ["C20", "C01"]),
 ("from_view_dims_swapped_capacity", "src/toodee.rs",
  "impl<T> From<TooDeeViewMut<'_, T>> for TooDee<T> where T : Clone {\n    fn from(view: TooDeeViewMut<'_, T>) -> Self {\n        let num_cols = view.num_cols();\n        let num_rows = view.num_rows();",
  "impl<T> From<TooDeeViewMut<'_, T>> for TooDee<T> where T : Clone {\n    fn from(view: TooDeeViewMut<'_, T>) -> Self {\n        let num_cols = view.num_rows();\n        let num_rows = view.num_cols();",
  "From<TooDeeViewMut> swaps the dimensions (invisible on square views)", ["C20", "C05"]),
 ("rowsmut_next_back_skip", "src/iter.rs",
  "                    self.v = fst.get_unchecked_mut(..tmp_len - self.cols - self.skip_cols);",
  "                    self.v = fst.get_unchecked_mut(..tmp_len - self.cols - self.skip_cols.min(1));",
  "RowsMut::next_back only steps over at most one gap element", ["C08", "C04"]),
 ("cells_size_hint_no_back", "src/flattenexact.rs",
  "        len += self.backiter.as_ref().map_or(0, |i| i.len());\n        (len, Some(len))",
  "        (len, Some(len))",
  "FlattenExact::size_hint forgets the partially consumed back row", ["C10"]),
 ("serde_view_cols_rows_swapped", "src/serde.rs",
  "impl Serialize for TooDeeViewMut<'_, u32>\n{\n    fn serialize<S>(&self, serializer: S) -> Result<S::Ok, S::Error>\n        where S: Serializer\n    {\n        let mut storage = serializer.serialize_struct(\"TooDee\", 3)?;\n        storage.serialize_field(\"num_cols\", &self.num_cols())?;\n        storage.serialize_field(\"num_rows\", &self.num_rows())?;",
  "impl Serialize for TooDeeViewMut<'_, u32>\n{\n    fn serialize<S>(&self, serializer: S) -> Result<S::Ok, S::Error>\n        where S: Serializer\n    {\n        let mut storage = serializer.serialize_struct(\"TooDee\", 3)?;\n        storage.serialize_field(\"num_cols\", &self.num_rows())?;\n        storage.serialize_field(\"num_rows\", &self.num_cols())?;",
  "the TooDeeViewMut serialiser writes the dimensions swapped", ["C18"]),
 ("flip_rows_stops_early", "src/translate.rs",
  "        while let (Some(r1), Some(r2)) = (iter.next(), iter.next_back()) {\n            r1.swap_with_slice(r2);\n        }",
  "        let mut n = iter.len() / 2;\n        while let (Some(r1), Some(r2)) = (iter.next(), iter.next_back()) {\n            if n == 0 { break; }\n            n = n.saturating_sub(2);\n            r1.swap_with_slice(r2);\n        }",
  "flip_rows stops after half of the pairs", ["C15"]),
]

def sh(cmd, cwd=None, timeout=600):
    return subprocess.run(cmd, shell=True, cwd=cwd, capture_output=True, text=True, timeout=timeout)

def apply_edit(path, old, new):
    data = open(path, "rb").read()
    crlf = b"\r\n" in data
    o, n = old.encode(), new.encode()
    if crlf:
        o, n = o.replace(b"\n", b"\r\n"), n.replace(b"\n", b"\r\n")
    cnt = data.count(o)
    if cnt != 1:
        return f"expected exactly one match, found {cnt}"
    open(path, "wb").write(data.replace(o, n))
    return None

def main():
    os.makedirs(OUT, exist_ok=True)
    idx_path = os.path.join(OUT, "index.json")
    index = json.load(open(idx_path)) if os.path.exists(idx_path) else {}
    want = set(sys.argv[1:])
    if sh("git status --porcelain", REPO).stdout.strip():
        sys.exit("/repo working tree is not clean")
    for name, f, old, new, desc, props in SPECS:
        if want and name not in want:
            continue
        err = apply_edit(os.path.join(REPO, f), old, new)
        if err:
            print(f"{name}: SPEC DOES NOT APPLY ({err})")
            sh("git checkout -- .", REPO)
            continue
        try:
            t = sh("cargo test --offline 2>&1 | grep -E '^test result|error(\\[|:)' ", REPO)
            lines = [l for l in t.stdout.splitlines() if l.startswith("test result")]
            ok = len(lines) >= 2 and all("0 failed" in l and "ok." in l for l in lines) and "error" not in t.stdout
            if ok:
                sh(f"git diff > {os.path.join(OUT, name + '.patch')}", REPO)
                index[name] = {"description": desc, "expected": props, "file": f}
                print(f"{name}: survives the suite -> kept")
            else:
                index.pop(name, None)
                print(f"{name}: killed by the suite or does not compile -> dropped  [{' | '.join(lines)[:160]}]")
        finally:
            sh("git checkout -- .", REPO)
    json.dump(index, open(idx_path, "w"), indent=1, sort_keys=True)

if __name__ == "__main__":
    main()
