#!/usr/bin/env python3
"""Systematic mutation of toodee's sources (a validation aid for the checks, not a MANIFEST check).

  mutate.py gen  <outdir>                       enumerate mutants (operator replacement, off-by-one, swapped
                                                dimension / tuple field / iterator direction, deleted assertion)
                                                of /repo's src/*.rs (test modules, comments and docs excluded)
  mutate.py suite <outdir> <worktree> [k/n]     phase 1: apply each mutant (share k of n) to the scratch worktree,
                                                run the repository's suite; keep the survivors as patches
  mutate.py check <outdir> <verif-root> <worktree> [k/n]
                                                phase 2: for every survivor run the quick checks of <verif-root>
                                                (a private copy of /verif, VERIF_REPO=<worktree>) in an order given
                                                by the file touched, stop at the first VIOLATION
  mutate.py report <outdir>                     summary

All edits are byte-level and preserve the CRLF line endings of the sources."""
import json, os, re, subprocess, sys, hashlib

FILES = ["toodee.rs", "view.rs", "iter.rs", "flattenexact.rs", "ops.rs", "copy.rs", "sort.rs", "translate.rs", "serde.rs"]
ORDER = {
    "iter.rs": ["C08", "C09", "C10", "C07", "C04", "C13", "C01"],
    "flattenexact.rs": ["C10", "C04", "C01", "C20"],
    "view.rs": ["C03", "C02", "C04", "C13", "C08", "C09", "C10", "C20", "C14", "C15", "C16", "C17", "C18"],
    "ops.rs": ["C13", "C04", "C10", "C02", "C01"],
    "copy.rs": ["C14", "C04", "C01"],
    "sort.rs": ["C16", "C17", "C04", "C01", "C05", "C11"],
    "translate.rs": ["C15", "C04", "C01"],
    "serde.rs": ["C19", "C18"],
    "toodee.rs": ["C01", "C06", "C07", "C20", "C05", "C13", "C02", "C09", "C11", "C12", "C03", "C14", "C18"],
}
ALL = ["C%02d" % i for i in range(1, 21)]

REPL = [
    (rb" <= ", b" < "), (rb" < ", b" <= "), (rb" >= ", b" > "), (rb" > ", b" >= "),
    (rb" == ", b" != "), (rb" != ", b" == "),
    (rb" \+ ", b" - "), (rb" - ", b" + "), (rb" \* ", b" + "), (rb" / ", b" * "), (rb" % ", b" / "),
    (rb" \+= ", b" -= "), (rb" -= ", b" += "),
    (rb" && ", b" || "), (rb" \|\| ", b" && "),
    (rb" \+ 1\b", b""), (rb" - 1\b", b""), (rb" \+ 1\b", b" + 2"), (rb" - 1\b", b" - 2"),
    (rb"\bnum_cols\b", b"num_rows"), (rb"\bnum_rows\b", b"num_cols"),
    (rb"\.0\b", b".1"), (rb"\.1\b", b".0"),
    (rb"\bnext\(\)", b"next_back()"), (rb"\bnext_back\(\)", b"next()"),
    (rb"\bnth\(", b"nth_back("), (rb"\bnth_back\(", b"nth("),
    (rb"\bmin\(", b"max("), (rb"\bmax\(", b"min("),
    (rb"\bstart\b", b"end"), (rb"\bend\b", b"start"),
    (rb"\bcols\b", b"rows"), (rb"\brows\b", b"cols"),
    (rb"\bskip_cols\b", b"cols"), (rb"\bstride\b", b"num_cols"),
    (rb"\bchecked_mul\b", b"checked_add"), (rb"\boverflowing_mul\b", b"overflowing_add"),
    (rb"\brotate_left\b", b"rotate_right"), (rb"\brotate_right\b", b"rotate_left"),
    (rb"\bsort_by\b", b"sort_unstable_by"), (rb"\bsort_by_key\b", b"sort_unstable_by_key"),
    (rb"\b0\b", b"1"), (rb"\b1\b", b"0"), (rb"\btrue\b", b"false"), (rb"\bfalse\b", b"true"),
    (rb"\bSome\(", b"None.or(Some("),  # placeholder, filtered below (never compiles) - kept out
]
REPL = [r for r in REPL if not r[1].startswith(b"None.or")]


def code_lines(data):
    """Yields (line_no, start, end) for lines that are code outside test modules, comments and docs."""
    lines = data.split(b"\n")
    pos = 0
    in_tests = False
    out = []
    for i, l in enumerate(lines):
        s = l.strip()
        if s.startswith(b"#[cfg(test)]"):
            in_tests = True
        if not in_tests and s and not s.startswith(b"//") and not s.startswith(b"#[") and not s.startswith(b"#!["):
            # strip a trailing comment
            code_end = len(l)
            m = re.search(rb"\s//", l)
            if m:
                code_end = m.start()
            out.append((i + 1, pos, pos + code_end))
        pos += len(l) + 1
    return out


def gen(outdir):
    os.makedirs(outdir, exist_ok=True)
    muts = []
    for f in FILES:
        path = os.path.join("/repo/src", f)
        data = open(path, "rb").read()
        for (ln, a, b) in code_lines(data):
            line = data[a:b]
            if re.match(rb"\s*(use |pub use |mod |pub mod |extern |impl|pub trait|trait |pub struct|struct |type |pub type |where|\}|\{)", line):
                continue
            # deletion of a one-line assertion
            if re.match(rb"\s*(debug_)?assert(_eq|_ne)?!\(.*\);\s*$", line):
                muts.append({"file": f, "line": ln, "a": a, "b": b, "new": (re.match(rb"\s*", line).group(0) + b"();").decode("latin1"), "op": "delete-assert"})
            for (pat, rep) in REPL:
                for m in re.finditer(pat, line):
                    # skip generics / lifetimes / string literals heuristically
                    pre = line[: m.start()]
                    if pre.count(b'"') % 2 == 1:
                        continue
                    if pat in (rb"\b0\b", rb"\b1\b") and (m.start() > 0 and line[m.start() - 1 : m.start()] in (b".", b"_") or re.match(rb"[a-zA-Z_]", line[m.end() : m.end() + 1] or b" ")):
                        continue
                    new = line[: m.start()] + rep + line[m.end() :]
                    muts.append({"file": f, "line": ln, "a": a, "b": b, "new": new.decode("latin1"), "op": "%s -> %s" % (pat.decode(), rep.decode())})
    # dedupe
    seen = set()
    uniq = []
    for m in muts:
        k = (m["file"], m["a"], m["new"])
        if k in seen:
            continue
        seen.add(k)
        m["id"] = "m%04d" % len(uniq)
        uniq.append(m)
    json.dump(uniq, open(os.path.join(outdir, "mutants.json"), "w"), indent=0)
    print(len(uniq), "mutants")


def sh(cmd, cwd=None, timeout=None, env=None):
    try:
        r = subprocess.run(cmd, shell=True, cwd=cwd, capture_output=True, text=True, timeout=timeout, env=env)
        return r.returncode, r.stdout + r.stderr
    except subprocess.TimeoutExpired:
        return 124, "timeout"


def apply_mut(wt, m):
    p = os.path.join(wt, "src", m["file"])
    data = open(p, "rb").read()
    data = data[: m["a"]] + m["new"].encode("latin1") + data[m["b"] :]
    open(p, "wb").write(data)


def share(args):
    for a in args:
        if "/" in a and a.replace("/", "").isdigit():
            k, n = a.split("/")
            return int(k), int(n)
    return 0, 1


def suite(outdir, wt, k, n):
    muts = json.load(open(os.path.join(outdir, "mutants.json")))
    res_path = os.path.join(outdir, "suite-%d.jsonl" % k)
    done = set()
    if os.path.exists(res_path):
        done = {json.loads(l)["id"] for l in open(res_path)}
    env = dict(os.environ, CARGO_NET_OFFLINE="true", CARGO_BUILD_JOBS="3")
    os.makedirs(os.path.join(outdir, "survivors"), exist_ok=True)
    for i, m in enumerate(muts):
        if i % n != k or m["id"] in done:
            continue
        sh("git checkout -- .", wt)
        apply_mut(wt, m)
        rc, out = sh("cargo test --offline --lib 2>&1 | tail -5", wt, timeout=240, env=env)
        verdict = None
        if "error" in out and "test result" not in out:
            verdict = "no-compile"
        elif "test result: ok" not in out:
            verdict = "killed-by-suite"
        else:
            rc, out2 = sh("cargo test --offline --doc 2>&1 | tail -5", wt, timeout=400, env=env)
            verdict = "survivor" if "test result: ok" in out2 else "killed-by-suite"
        if verdict == "survivor":
            rc, diff = sh("git diff", wt)
            subprocess.run("git diff > %s" % os.path.join(outdir, "survivors", m["id"] + ".patch"), shell=True, cwd=wt)
        open(res_path, "a").write(json.dumps({"id": m["id"], "verdict": verdict}) + "\n")
    sh("git checkout -- .", wt)


def check(outdir, root, wt, k, n):
    muts = {m["id"]: m for m in json.load(open(os.path.join(outdir, "mutants.json")))}
    surv = sorted(f[:-6] for f in os.listdir(os.path.join(outdir, "survivors")) if f.endswith(".patch"))
    res_path = os.path.join(outdir, "check-%d.jsonl" % k)
    done = set()
    if os.path.exists(res_path):
        done = {json.loads(l)["id"] for l in open(res_path)}
    env = dict(os.environ, VERIF_REPO=wt, CARGO_NET_OFFLINE="true")
    for i, mid in enumerate(surv):
        if i % n != k or mid in done:
            continue
        m = muts[mid]
        sh("git checkout -- .", wt)
        rc, out = sh("git apply --whitespace=nowarn %s" % os.path.join(outdir, "survivors", mid + ".patch"), wt)
        if rc != 0:
            open(res_path, "a").write(json.dumps({"id": mid, "verdict": "patch-failed"}) + "\n")
            continue
        order = ORDER[m["file"]] + [p for p in ALL if p not in ORDER[m["file"]]]
        caught, tried, engine = None, [], []
        for prop in order:
            rc, out = sh("bin/check %s quick" % prop, root, timeout=900, env=env)
            tried.append(prop)
            if rc == 1 and "VIOLATION property=" + prop in out:
                sigs = sorted(set(l.split("signature: ")[1].split(" x")[0] for l in out.splitlines() if "by profile/signature" in l))
                caught = {"prop": prop, "sigs": sigs[:4]}
                break
            if rc not in (0, 1):
                engine.append(prop)
        open(res_path, "a").write(json.dumps({"id": mid, "file": m["file"], "line": m["line"], "op": m["op"], "caught": caught, "tried": len(tried), "engine_errors": engine}) + "\n")
    sh("git checkout -- .", wt)


def report(outdir):
    muts = {m["id"]: m for m in json.load(open(os.path.join(outdir, "mutants.json")))}
    sv = {}
    for f in os.listdir(outdir):
        if f.startswith("suite-"):
            for l in open(os.path.join(outdir, f)):
                d = json.loads(l)
                sv[d["id"]] = d["verdict"]
    from collections import Counter
    print("mutants:", len(muts), "evaluated by the suite:", len(sv), dict(Counter(sv.values())))
    ck = {}
    for f in os.listdir(outdir):
        if f.startswith("check-"):
            for l in open(os.path.join(outdir, f)):
                d = json.loads(l)
                ck[d["id"]] = d
    caught = [d for d in ck.values() if d.get("caught")]
    missed = [d for d in ck.values() if not d.get("caught")]
    print("survivors checked:", len(ck), "caught:", len(caught), "not reported:", len(missed))
    print("caught by:", dict(Counter(d["caught"]["prop"] for d in caught)))
    for d in sorted(missed, key=lambda d: (d.get("file", ""), d.get("line", 0))):
        m = muts[d["id"]]
        print("NOT REPORTED", d["id"], m["file"], m["line"], m["op"], "|", m["new"].strip()[:110], "| engine errors:", d.get("engine_errors"))


if __name__ == "__main__":
    cmd = sys.argv[1]
    if cmd == "gen":
        gen(sys.argv[2])
    elif cmd == "suite":
        k, n = share(sys.argv[4:])
        suite(sys.argv[2], sys.argv[3], k, n)
    elif cmd == "check":
        k, n = share(sys.argv[5:])
        check(sys.argv[2], sys.argv[3], sys.argv[4], k, n)
    else:
        report(sys.argv[2])
