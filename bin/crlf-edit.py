#!/usr/bin/env python3
"""crlf-edit.py FILE OLD_FILE NEW_FILE : replace the text in OLD_FILE by the text in NEW_FILE inside FILE,
preserving FILE's line endings (the repo mixes CRLF and LF files). Exactly one occurrence must match."""
import sys
path, oldp, newp = sys.argv[1:4]
data = open(path, 'rb').read()
crlf = b'\r\n' in data
old = open(oldp, 'rb').read().replace(b'\r\n', b'\n')
new = open(newp, 'rb').read().replace(b'\r\n', b'\n')
if old.endswith(b'\n') and not new.endswith(b'\n'): new += b'\n'
if crlf:
    old = old.replace(b'\n', b'\r\n'); new = new.replace(b'\n', b'\r\n')
n = data.count(old)
if n != 1:
    sys.exit(f"expected exactly one match, found {n}")
open(path, 'wb').write(data.replace(old, new))
