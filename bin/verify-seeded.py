#!/usr/bin/env python3
"""verify-seeded.py <source worktree> <A|B> <seeded id> <property>
Confirms an independently written property-breaking change: in a scratch worktree of /repo HEAD
(outside /repo and /verif) the patch applies, the repository's suite stays green with it, the
demonstration fails with it and passes without it. Then files it as /verif/seeded/<id>/."""
import json, os, shutil, subprocess, sys
src, which, sid, prop = sys.argv[1:5]
SCR = "/tmp/vs-scratch"
def sh(cmd, cwd=None):
    return subprocess.run(cmd, shell=True, cwd=cwd, capture_output=True, text=True)
if not os.path.isdir(SCR):
    r = sh(f"git -C /repo worktree add -q --detach {SCR} HEAD"); assert r.returncode == 0, r.stderr
sh("git checkout -q --detach $(git -C /repo rev-parse HEAD) && git checkout -- . && rm -rf tests", SCR)
patch = f"{src}/seeded_out/{which}.patch.diff"; demo = f"{src}/seeded_out/{which}_demo.rs"; notes = f"{src}/seeded_out/{which}_notes.md"
res = {}
r = sh(f"git apply --whitespace=nowarn {patch}", SCR); res["applies"] = r.returncode == 0
if not res["applies"]:
    print("PATCH DOES NOT APPLY", r.stderr); sys.exit(1)
t = sh("CARGO_NET_OFFLINE=true cargo test --offline 2>&1 | grep -E '^test result'", SCR).stdout.strip().splitlines()
res["suite_with_patch"] = t
suite_ok = len(t) >= 2 and all("ok." in l and " 0 failed" in l for l in t)
os.makedirs(f"{SCR}/tests", exist_ok=True); shutil.copy(demo, f"{SCR}/tests/seeded_demo.rs")
d1 = sh("CARGO_NET_OFFLINE=true cargo test --offline --test seeded_demo 2>&1 | tail -5", SCR)
fails_with = "test result: ok" not in d1.stdout
res["demo_with_patch"] = d1.stdout.strip().splitlines()[-3:]
sh("git checkout -- .", SCR)
d2 = sh("CARGO_NET_OFFLINE=true cargo test --offline --test seeded_demo 2>&1 | tail -5", SCR)
passes_without = "test result: ok" in d2.stdout
res["demo_without_patch"] = d2.stdout.strip().splitlines()[-3:]
shutil.rmtree(f"{SCR}/tests")
print(json.dumps(res, indent=1))
ok = suite_ok and fails_with and passes_without
print("CONFIRMED" if ok else "NOT CONFIRMED", sid)
if ok:
    out = f"/verif/seeded/{sid}"; os.makedirs(out, exist_ok=True)
    shutil.copy(patch, f"{out}/patch.diff"); shutil.copy(demo, f"{out}/demo.rs"); shutil.copy(notes, f"{out}/notes.md")
    meta = {"property": prop, "origin": "independent sub-agent given only the property text and a scratch worktree",
            "needs_to_manifest": "see notes.md", "verified": {"repo_head": sh("git -C /repo rev-parse --short HEAD").stdout.strip(),
            "suite_with_patch": t, "demo_fails_with_patch": True, "demo_passes_without_patch": True,
            "ran": ["git apply patch.diff (scratch worktree of /repo HEAD)", "cargo test --offline", "cargo test --offline --test seeded_demo (with and without the patch)"]}}
    json.dump(meta, open(f"{out}/meta.json", "w"), indent=1)
sys.exit(0 if ok else 1)
