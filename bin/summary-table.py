#!/usr/bin/env python3
"""Regenerates the summary table of DESIGN.md section 4 from evidence/*.json (last run of each check).
   bin/summary-table.py          print the table
   bin/summary-table.py --write  replace the table in DESIGN.md"""
import json, os, re, sys
root = os.path.join(os.path.dirname(os.path.abspath(__file__)), '..')
man = json.load(open(os.path.join(root, 'MANIFEST.json')))
cat = {c['property_id']: c['level_claimed']['category'] for c in man['checks']}
SHAPE = {'model_checking': 'S', 'fault_enumeration': 'F', 'exploration': 'E'}
lines = ['| id | shape | category | quick bound | evaluations | wall |', '|---|---|---|---|---|---|']
for i in range(1, 21):
    pid = 'C%02d' % i
    e = json.load(open(os.path.join(root, 'evidence', pid + '.json')))
    if e['tier'] != 'quick':
        sys.exit('evidence/%s.json is from the %s tier; run bin/run-all quick first' % (pid, e['tier']))
    cov = e['coverage']
    ev = '{:,}'.format(cov['evaluations'])
    if cat[pid] == 'model_checking':
        st = sum(p['states'] for p in cov['per_profile'])
        tr = sum(p['transitions'] for p in cov['per_profile'])
        # states are the same set in every profile: report one profile's count
        st = max(p['states'] for p in cov['per_profile'])
        ev += '; {:,} states, {:,} transitions'.format(st, tr)
    lines.append('| %s | %s | %s | %s | %s | %d s |' % (pid, SHAPE[cat[pid]], cat[pid], cov['bound'], ev, round(e['wall_s'])))
table = '\n'.join(lines)
if '--write' in sys.argv:
    p = os.path.join(root, 'DESIGN.md')
    s = open(p).read()
    new, n = re.subn(r'\| id \| shape \| category \| quick bound \| evaluations \| wall \|\n(\|.*\n)+', table + '\n', s)
    if n != 1:
        sys.exit('table not found in DESIGN.md')
    open(p, 'w').write(new)
else:
    print(table)
