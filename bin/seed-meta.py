#!/usr/bin/env python3
"""seed-meta.py set <id> <round> <what> <needs> [missed-by-note]   fill in meta.json of a filed seeded change
   seed-meta.py sync                                               copy verdicts from mutants/kill-matrix.json into every meta.json and rebuild the table of seeded/README.md"""
import json, os, sys, glob, re
ROOT = os.path.dirname(os.path.dirname(os.path.abspath(__file__)))
def meta_path(i): return os.path.join(ROOT, 'seeded', i, 'meta.json')
if sys.argv[1] == 'set':
    i, rnd, what, needs = sys.argv[2:6]
    m = json.load(open(meta_path(i)))
    m.update({'what': what, 'needs_to_manifest': needs, 'round': int(rnd), 'expected_checks': [m['property']]})
    if len(sys.argv) > 6 and sys.argv[6]:
        m['initially_missed_by'] = sys.argv[6]
    json.dump(m, open(meta_path(i), 'w'), indent=1)
else:
    km = json.load(open(os.path.join(ROOT, 'mutants', 'kill-matrix.json')))
    rows = []
    for p in sorted(glob.glob(meta_path('*'))):
        i = os.path.basename(os.path.dirname(p))
        m = json.load(open(p))
        row = km.get('seeded/' + i, {})
        who = (m.get('expected_checks') or [m['property']])[0]
        own = row.get(who)
        if own:
            m['caught_by'] = {who: {'verdict': own['verdict'], 'signatures': own['signatures']}}
            json.dump(m, open(p, 'w'), indent=1)
        cb = m.get('caught_by', {}).get(who, {})
        by = '%s (%s)' % (who, '; '.join(cb.get('signatures', [])[:3])) if cb.get('verdict') == 'caught' else 'NOT REPORTED'
        if m.get('tier') == 'thorough':
            by += ' — thorough tier'
        if m.get('initially_missed_by'):
            by += ' — initially missed by ' + m['initially_missed_by']
        rows.append('| %s | %s | %s | %s |' % (i, m.get('what', '').replace('|', '/'), m.get('needs_to_manifest', '').replace('|', '/'), by))
    p = os.path.join(ROOT, 'seeded', 'README.md')
    s = open(p).read()
    head = s[:s.index('| id | change |')]
    open(p, 'w').write(head + '| id | change | needs, in order to manifest | reported by (signatures) |\n|---|---|---|---|\n' + '\n'.join(rows) + '\n')
    print(len(rows), 'rows')
