//! Shared helpers: shapes, windows, overflow-provoking values (DESIGN.md 3.8), the reference model.

/// All (cols, rows) with both in 0..=n that satisfy the zero rule (0,0) or both non-zero.
pub fn shapes(n: usize) -> Vec<(usize, usize)> {
    let mut v = vec![(0, 0)];
    for c in 1..=n {
        for r in 1..=n {
            v.push((c, r));
        }
    }
    v
}

/// All shapes with c*r <= cells and c,r <= maxdim (zero rule respected).
pub fn shapes_cells(cells: usize, maxdim: usize) -> Vec<(usize, usize)> {
    shapes(maxdim).into_iter().filter(|(c, r)| c * r <= cells).collect()
}

/// All valid windows (start, end) of a (c, r) parent: start <= end <= (c,r) componentwise.
pub fn windows(c: usize, r: usize) -> Vec<((usize, usize), (usize, usize))> {
    let mut v = Vec::new();
    for sc in 0..=c {
        for ec in sc..=c {
            for sr in 0..=r {
                for er in sr..=r {
                    v.push(((sc, sr), (ec, er)));
                }
            }
        }
    }
    v
}
/// Non-empty windows only.
pub fn windows_nonempty(c: usize, r: usize) -> Vec<((usize, usize), (usize, usize))> {
    windows(c, r).into_iter().filter(|(s, e)| e.0 > s.0 && e.1 > s.1).collect()
}

fn inv_odd(m: u64) -> u64 {
    // Newton iteration for the inverse of an odd number modulo 2^64
    let mut x = m;
    for _ in 0..6 {
        x = x.wrapping_mul(2u64.wrapping_sub(m.wrapping_mul(x)));
    }
    x
}

/// The fixed set of "huge" values.
pub fn huge_fixed() -> Vec<usize> {
    vec![1usize << 31, 1usize << 32, 1usize << 63, usize::MAX / 2, usize::MAX / 2 + 1, usize::MAX - 1, usize::MAX]
}

/// Every out-of-range `v` (v >= limit) with `v * s (mod 2^64)` in `0..=max_target`, for each stride in
/// `strides` - at most `per_class` smallest members per residue class - plus values whose product
/// lands just above (wrap-around neighbours), plus the fixed set, plus `usize::MAX - j`.
pub fn huge_for_mul(strides: &[usize], max_target: usize, limit: usize) -> Vec<usize> {
    let mut out: Vec<usize> = huge_fixed();
    for j in 0..=3usize {
        out.push(usize::MAX - j);
    }
    for &s in strides {
        if s == 0 {
            continue;
        }
        let k = s.trailing_zeros();
        let m = (s >> k) as u64;
        let inv = inv_odd(m);
        for t in 0..=max_target {
            if k > 0 && (t & ((1usize << k) - 1)) != 0 {
                continue;
            }
            let tt = (t >> k) as u64;
            // solutions modulo 2^(64-k)
            let base = if k == 0 { tt.wrapping_mul(inv) } else { tt.wrapping_mul(inv) & ((1u64 << (64 - k)) - 1) };
            let classes: u64 = 1u64 << k.min(3);
            for j in 0..classes {
                let v = if k == 0 { base } else { base.wrapping_add(j << (64 - k)) } as usize;
                if v >= limit && (v as u64).wrapping_mul(s as u64) == t as u64 {
                    out.push(v);
                }
            }
        }
    }
    out.sort_unstable();
    out.dedup();
    out.retain(|v| *v >= limit);
    out
}

/// Boring reference model: rows of cells.
#[derive(Clone, Debug, PartialEq, Eq)]
pub struct Model<L> {
    pub cols: usize,
    pub rows: usize,
    pub cells: Vec<Vec<L>>,
}

impl<L: Clone> Model<L> {
    pub fn empty() -> Self {
        Model { cols: 0, rows: 0, cells: Vec::new() }
    }
    pub fn from_flat(cols: usize, rows: usize, flat: &[L]) -> Self {
        assert_eq!(cols * rows, flat.len());
        let cells = (0..rows).map(|r| flat[r * cols..(r + 1) * cols].to_vec()).collect();
        Model { cols, rows, cells }
    }
    pub fn flat(&self) -> Vec<L> {
        self.cells.iter().flat_map(|r| r.iter().cloned()).collect()
    }
    pub fn get(&self, c: usize, r: usize) -> &L {
        &self.cells[r][c]
    }
    pub fn col(&self, c: usize) -> Vec<L> {
        self.cells.iter().map(|r| r[c].clone()).collect()
    }
    /// Valid per the documented contract?
    pub fn insert_row_ok(&self, i: usize, len: usize) -> bool {
        i <= self.rows && (self.rows == 0 || len == self.cols)
    }
    pub fn insert_row(&mut self, i: usize, line: Vec<L>) {
        if self.rows == 0 {
            if line.is_empty() {
                return;
            }
            self.cols = line.len();
        }
        self.cells.insert(i, line);
        self.rows += 1;
    }
    pub fn insert_col_ok(&self, i: usize, len: usize) -> bool {
        i <= self.cols && (self.cols == 0 || len == self.rows)
    }
    pub fn insert_col(&mut self, i: usize, line: Vec<L>) {
        if self.cols == 0 {
            if line.is_empty() {
                return;
            }
            self.rows = line.len();
            self.cells = vec![Vec::new(); self.rows];
        }
        for (r, v) in line.into_iter().enumerate() {
            self.cells[r].insert(i, v);
        }
        self.cols += 1;
    }
    pub fn remove_row(&mut self, i: usize) -> Vec<L> {
        let line = self.cells.remove(i);
        self.rows -= 1;
        if self.rows == 0 {
            self.cols = 0;
        }
        line
    }
    pub fn remove_col(&mut self, i: usize) -> Vec<L> {
        let line: Vec<L> = self.cells.iter_mut().map(|r| r.remove(i)).collect();
        self.cols -= 1;
        if self.cols == 0 {
            self.rows = 0;
            self.cells.clear();
        }
        line
    }
    pub fn clear(&mut self) {
        *self = Model::empty();
    }
    pub fn swap_dimensions(&mut self) {
        let flat = self.flat();
        let (c, r) = (self.rows, self.cols);
        *self = Model::from_flat(c, r, &flat);
    }
    pub fn translate(&mut self, mc: usize, mr: usize) {
        let old = self.cells.clone();
        for r in 0..self.rows {
            for c in 0..self.cols {
                self.cells[r][c] = old[(r + mr) % self.rows][(c + mc) % self.cols].clone();
            }
        }
    }
    pub fn flip_rows(&mut self) {
        self.cells.reverse();
    }
    pub fn flip_cols(&mut self) {
        for r in self.cells.iter_mut() {
            r.reverse();
        }
    }
    pub fn swap_rows(&mut self, a: usize, b: usize) {
        self.cells.swap(a, b);
    }
    pub fn swap_cols(&mut self, a: usize, b: usize) {
        for r in self.cells.iter_mut() {
            r.swap(a, b);
        }
    }
    pub fn swap(&mut self, a: (usize, usize), b: (usize, usize)) {
        let x = self.cells[a.1][a.0].clone();
        let y = self.cells[b.1][b.0].clone();
        self.cells[a.1][a.0] = y;
        self.cells[b.1][b.0] = x;
    }
    pub fn window(&self, s: (usize, usize), e: (usize, usize)) -> Model<L> {
        let (c, r) = if e.0 == s.0 || e.1 == s.1 { (0, 0) } else { (e.0 - s.0, e.1 - s.1) };
        let cells = (0..r).map(|y| self.cells[s.1 + y][s.0..s.0 + c].to_vec()).collect();
        Model { cols: c, rows: r, cells }
    }
}

impl<L: Clone + Ord> Model<L> {
    /// Stable sort of whole columns by the key row.
    pub fn sort_cols_stable_by<K: Ord>(&mut self, row: usize, key: impl Fn(&L) -> K) {
        let mut idx: Vec<usize> = (0..self.cols).collect();
        idx.sort_by_key(|&c| key(&self.cells[row][c]));
        let old = self.cells.clone();
        for r in 0..self.rows {
            for (nc, &oc) in idx.iter().enumerate() {
                self.cells[r][nc] = old[r][oc].clone();
            }
        }
    }
    /// Stable sort of whole rows by the key column.
    pub fn sort_rows_stable_by<K: Ord>(&mut self, col: usize, key: impl Fn(&L) -> K) {
        let mut idx: Vec<usize> = (0..self.rows).collect();
        idx.sort_by_key(|&r| key(&self.cells[r][col]));
        let old = self.cells.clone();
        for (nr, &or) in idx.iter().enumerate() {
            self.cells[nr] = old[or].clone();
        }
    }
}

/// Dense rank compression preserving order and ties.
pub fn rank_compress(v: &[u32]) -> Vec<u32> {
    let mut s: Vec<u32> = v.to_vec();
    s.sort_unstable();
    s.dedup();
    v.iter().map(|x| s.binary_search(x).unwrap() as u32).collect()
}
