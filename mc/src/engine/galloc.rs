//! Guard allocator (DESIGN.md 3.5): red zones around every block, fill patterns for fresh and
//! freed memory, red zones verified on dealloc/realloc. Errors are recorded in atomics (no
//! allocation inside the allocator) and collected by the engine at the end of every case.

use std::alloc::{GlobalAlloc, Layout, System};
use std::sync::atomic::{AtomicBool, AtomicU64, Ordering};

const RZ: usize = 64;
const RZ_BYTE: u8 = 0xFD;
const FRESH: u8 = 0xA5;
const FREED: u8 = 0xDD;

pub struct Guard;

static ENABLED: AtomicBool = AtomicBool::new(false);
/// Page-guard mode: every new block ends exactly at an inaccessible page, so that an over-READ
/// (which red zones cannot see) or over-write past the end faults at the offending instruction.
static PAGE_MODE: AtomicBool = AtomicBool::new(false);
const PAGE: usize = 4096;
const RZ_MARK: u64 = 0x6A11_0C8D_6A11_0C8D;
const PG_MARK: u64 = 0x9A6E_6A4D_9A6E_6A4D;


// Pool of pre-mapped slots, each one data page followed by one inaccessible guard page. A block
// is placed so that it ENDS exactly at the guard page (modulo its alignment). No system call per
// allocation; blocks larger than a page (or a drained pool) fall back to the red-zone scheme.
const SLOTS: usize = 16384;
const SLOT_BYTES: usize = 2 * PAGE;
static POOL_BASE: AtomicU64 = AtomicU64::new(0);
static POOL_LOCK: AtomicBool = AtomicBool::new(false);
static mut FREE_STACK: [u32; SLOTS] = [0; SLOTS];
static mut FREE_TOP: usize = 0;
static mut NEXT_FRESH: usize = 0;

pub fn set_page_mode(on: bool) {
    if on && POOL_BASE.load(Ordering::SeqCst) == 0 {
        unsafe {
            let base = libc::mmap(std::ptr::null_mut(), SLOTS * SLOT_BYTES, libc::PROT_READ | libc::PROT_WRITE, libc::MAP_PRIVATE | libc::MAP_ANONYMOUS | libc::MAP_NORESERVE, -1, 0);
            if base == libc::MAP_FAILED {
                return;
            }
            // guard pages are protected lazily, when a slot is used for the first time
            FREE_TOP = 0;
            NEXT_FRESH = 0;
            POOL_BASE.store(base as u64, Ordering::SeqCst);
        }
    }
    PAGE_MODE.store(on, Ordering::SeqCst);
}
pub fn page_mode() -> bool {
    PAGE_MODE.load(Ordering::Relaxed)
}

#[inline]
fn lock() {
    while POOL_LOCK.compare_exchange_weak(false, true, Ordering::Acquire, Ordering::Relaxed).is_err() {
        std::hint::spin_loop();
    }
}
#[inline]
fn unlock() {
    POOL_LOCK.store(false, Ordering::Release);
}

/// Returns null if the block does not fit a slot or the pool is drained.
unsafe fn page_alloc(l: Layout) -> *mut u8 {
    let size_r = (l.size() + l.align() - 1) & !(l.align() - 1);
    if size_r + RZ > PAGE {
        return std::ptr::null_mut();
    }
    lock();
    let mut fresh = false;
    let slot = if FREE_TOP > 0 {
        FREE_TOP -= 1;
        Some(FREE_STACK[FREE_TOP])
    } else if NEXT_FRESH < SLOTS {
        NEXT_FRESH += 1;
        fresh = true;
        Some((NEXT_FRESH - 1) as u32)
    } else {
        None
    };
    unlock();
    let slot = match slot {
        Some(s) => s as usize,
        None => return std::ptr::null_mut(),
    };
    let base = (POOL_BASE.load(Ordering::Relaxed) as usize + slot * SLOT_BYTES) as *mut u8;
    if fresh {
        libc::mprotect(base.add(PAGE) as *mut libc::c_void, PAGE, libc::PROT_NONE);
    }
    let p = base.add(PAGE - size_r);
    (p.sub(RZ) as *mut u64).write_unaligned(PG_MARK);
    std::ptr::write_bytes(p, FRESH, l.size());
    p
}

unsafe fn page_dealloc(p: *mut u8, l: Layout) {
    std::ptr::write_bytes(p, FREED, l.size());
    (p.sub(RZ) as *mut u64).write_unaligned(0);
    let slot = (p as usize - POOL_BASE.load(Ordering::Relaxed) as usize) / SLOT_BYTES;
    lock();
    FREE_STACK[FREE_TOP] = slot as u32;
    FREE_TOP += 1;
    unlock();
}

static ERRORS: AtomicU64 = AtomicU64::new(0);
static FIRST_SIZE: AtomicU64 = AtomicU64::new(0);
static FIRST_SIDE: AtomicU64 = AtomicU64::new(0);

pub fn enable() {
    ENABLED.store(true, Ordering::SeqCst);
}
/// (number of red-zone corruptions seen since last call, size of first offending block, side 1=before 2=after)
pub fn take_errors() -> (u64, u64, u64) {
    let n = ERRORS.swap(0, Ordering::SeqCst);
    let s = FIRST_SIZE.swap(0, Ordering::SeqCst);
    let d = FIRST_SIDE.swap(0, Ordering::SeqCst);
    (n, s, d)
}

#[inline]
fn guarded(l: &Layout) -> bool {
    l.align() <= 16 && l.size() > 0 && l.size() < (1 << 40)
}

unsafe fn check(base: *mut u8, size: usize) {
    const W: u64 = u64::from_ne_bytes([RZ_BYTE; 8]);
    let mut bad = 0u64;
    let before = base.add(16) as *const u64;
    for i in 0..(RZ - 16) / 8 {
        if before.add(i).read() != W {
            bad = 1;
        }
    }
    let after = base.add(RZ + size) as *const u64;
    for i in 0..RZ / 8 {
        if after.add(i).read_unaligned() != W {
            bad = 2;
        }
    }
    if bad != 0 {
        if ERRORS.fetch_add(1, Ordering::SeqCst) == 0 {
            FIRST_SIZE.store(size as u64, Ordering::SeqCst);
            FIRST_SIDE.store(bad, Ordering::SeqCst);
        }
    }
}

unsafe impl GlobalAlloc for Guard {
    unsafe fn alloc(&self, l: Layout) -> *mut u8 {
        if !guarded(&l) {
            return System.alloc(l);
        }
        if PAGE_MODE.load(Ordering::Relaxed) {
            let p = page_alloc(l);
            if !p.is_null() {
                return p;
            }
        }
        let total = match l.size().checked_add(2 * RZ) {
            Some(t) => t,
            None => return std::ptr::null_mut(),
        };
        let base = System.alloc(Layout::from_size_align_unchecked(total, 16));
        if base.is_null() {
            return base;
        }
        // header: first 8 bytes hold a marker telling dealloc this block is guarded
        std::ptr::write_bytes(base, RZ_BYTE, RZ);
        (base as *mut u64).write(RZ_MARK);
        (base as *mut u64).add(1).write(l.size() as u64);
        std::ptr::write_bytes(base.add(RZ), FRESH, l.size());
        std::ptr::write_bytes(base.add(RZ + l.size()), RZ_BYTE, RZ);
        base.add(RZ)
    }
    unsafe fn dealloc(&self, p: *mut u8, l: Layout) {
        if !guarded(&l) {
            return System.dealloc(p, l);
        }
        let base = p.sub(RZ);
        let size = l.size();
        if (base as *mut u64).read_unaligned() == PG_MARK {
            return page_dealloc(p, l);
        }
        if ENABLED.load(Ordering::Relaxed) {
            if (base as *mut u64).read() != RZ_MARK || (base as *mut u64).add(1).read() != size as u64 {
                if ERRORS.fetch_add(1, Ordering::SeqCst) == 0 {
                    FIRST_SIZE.store(size as u64, Ordering::SeqCst);
                    FIRST_SIDE.store(3, Ordering::SeqCst);
                }
            }
            check(base, size);
        }
        std::ptr::write_bytes(p, FREED, size);
        System.dealloc(base, Layout::from_size_align_unchecked(size + 2 * RZ, 16));
    }
    unsafe fn realloc(&self, p: *mut u8, l: Layout, new_size: usize) -> *mut u8 {
        // always move: makes "pointer kept across a reallocation" visible
        let nl = Layout::from_size_align_unchecked(new_size, l.align());
        let np = self.alloc(nl);
        if !np.is_null() {
            std::ptr::copy_nonoverlapping(p, np, l.size().min(new_size));
            self.dealloc(p, l);
        }
        np
    }
}
