//! Guard allocator (DESIGN.md 3.5): red zones around every block, fill patterns for fresh and
//! freed memory, red zones verified on dealloc/realloc. Errors are recorded in atomics (no
//! allocation inside the allocator) and collected by the engine at the end of every case.

use std::alloc::{GlobalAlloc, Layout, System};
use std::sync::atomic::{AtomicBool, AtomicU64, Ordering};

const RZ: usize = 64;
const RZ_BYTE: u8 = 0xFD;
const FRESH: u8 = 0xA5;
const FREED: u8 = 0xDD;

pub struct Guard;

static ENABLED: AtomicBool = AtomicBool::new(false);
static ERRORS: AtomicU64 = AtomicU64::new(0);
static FIRST_SIZE: AtomicU64 = AtomicU64::new(0);
static FIRST_SIDE: AtomicU64 = AtomicU64::new(0);

pub fn enable() {
    ENABLED.store(true, Ordering::SeqCst);
}
/// (number of red-zone corruptions seen since last call, size of first offending block, side 1=before 2=after)
pub fn take_errors() -> (u64, u64, u64) {
    let n = ERRORS.swap(0, Ordering::SeqCst);
    let s = FIRST_SIZE.swap(0, Ordering::SeqCst);
    let d = FIRST_SIDE.swap(0, Ordering::SeqCst);
    (n, s, d)
}

#[inline]
fn guarded(l: &Layout) -> bool {
    l.align() <= 16 && l.size() > 0 && l.size() < (1 << 40)
}

unsafe fn check(base: *mut u8, size: usize) {
    let mut bad = 0u64;
    for i in 16..RZ {
        if *base.add(i) != RZ_BYTE {
            bad = 1;
        }
    }
    let after = base.add(RZ + size);
    for i in 0..RZ {
        if *after.add(i) != RZ_BYTE {
            bad = 2;
        }
    }
    if bad != 0 {
        if ERRORS.fetch_add(1, Ordering::SeqCst) == 0 {
            FIRST_SIZE.store(size as u64, Ordering::SeqCst);
            FIRST_SIDE.store(bad, Ordering::SeqCst);
        }
    }
}

unsafe impl GlobalAlloc for Guard {
    unsafe fn alloc(&self, l: Layout) -> *mut u8 {
        if !guarded(&l) {
            return System.alloc(l);
        }
        let total = match l.size().checked_add(2 * RZ) {
            Some(t) => t,
            None => return std::ptr::null_mut(),
        };
        let base = System.alloc(Layout::from_size_align_unchecked(total, 16));
        if base.is_null() {
            return base;
        }
        // header: first 8 bytes hold a marker telling dealloc this block is guarded
        std::ptr::write_bytes(base, RZ_BYTE, RZ);
        (base as *mut u64).write(0x6A11_0C8D_6A11_0C8D);
        (base as *mut u64).add(1).write(l.size() as u64);
        std::ptr::write_bytes(base.add(RZ), FRESH, l.size());
        std::ptr::write_bytes(base.add(RZ + l.size()), RZ_BYTE, RZ);
        base.add(RZ)
    }
    unsafe fn dealloc(&self, p: *mut u8, l: Layout) {
        if !guarded(&l) {
            return System.dealloc(p, l);
        }
        let base = p.sub(RZ);
        let size = l.size();
        if ENABLED.load(Ordering::Relaxed) {
            if (base as *mut u64).read() != 0x6A11_0C8D_6A11_0C8D || (base as *mut u64).add(1).read() != size as u64 {
                if ERRORS.fetch_add(1, Ordering::SeqCst) == 0 {
                    FIRST_SIZE.store(size as u64, Ordering::SeqCst);
                    FIRST_SIDE.store(3, Ordering::SeqCst);
                }
            }
            check(base, size);
        }
        std::ptr::write_bytes(p, FREED, size);
        System.dealloc(base, Layout::from_size_align_unchecked(size + 2 * RZ, 16));
    }
    unsafe fn realloc(&self, p: *mut u8, l: Layout, new_size: usize) -> *mut u8 {
        // always move: makes "pointer kept across a reallocation" visible
        let nl = Layout::from_size_align_unchecked(new_size, l.align());
        let np = self.alloc(nl);
        if !np.is_null() {
            std::ptr::copy_nonoverlapping(p, np, l.size().min(new_size));
            self.dealloc(p, l);
        }
        np
    }
}
