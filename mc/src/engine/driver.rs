//! Driver: never runs toodee code itself. Spawns workers per build profile, contains and
//! attributes crashes, merges counters, applies the known-findings file, writes evidence and
//! replay files, prints VIOLATION / KNOWN-FINDING lines.

use std::collections::{BTreeMap, HashMap};
use std::fs;
use std::io::Write;
use std::path::{Path, PathBuf};
use std::process::{Child, Command, Stdio};
use std::time::Instant;

use serde_json::{json, Value};

use super::ctx::{Profile, Tier, Violation};
use super::{Kind, Prop};

pub struct EngineError(pub String);

#[derive(Default, Clone)]
pub struct Totals {
    pub evals: u64,
    pub transitions: u64,
    pub traces: u64,
    pub nontrivial: u64,
    pub states: u64,
    pub outcomes: BTreeMap<String, u64>,
    pub violations: Vec<Violation>,
    pub viol_count: u64,
    pub samples: Vec<String>,
    pub succ: Vec<(String, String)>,
    pub crashes: u64,
    pub capped: bool,
}
impl Totals {
    fn absorb_line(&mut self, v: &Value) {
        self.evals += v["evals"].as_u64().unwrap_or(0);
        self.transitions += v["transitions"].as_u64().unwrap_or(0);
        self.traces += v["traces"].as_u64().unwrap_or(0);
        self.nontrivial += v["nontrivial"].as_u64().unwrap_or(0);
        self.states += v["states"].as_u64().unwrap_or(0);
        if let Some(o) = v["outcomes"].as_object() {
            for (k, n) in o {
                *self.outcomes.entry(k.clone()).or_insert(0) += n.as_u64().unwrap_or(0);
            }
        }
        self.viol_count += v["viol_count"].as_u64().unwrap_or(0);
        if let Some(a) = v["violations"].as_array() {
            for x in a {
                if self.violations.len() < 400 {
                    self.violations.push(Violation {
                        sig: x["sig"].as_str().unwrap_or("").to_string(),
                        msg: x["msg"].as_str().unwrap_or("").to_string(),
                        unit: x["unit"].as_str().unwrap_or("").to_string(),
                        case_no: x["case_no"].as_u64().unwrap_or(0),
                        desc: x["desc"].as_str().unwrap_or("").to_string(),
                    });
                }
            }
        }
        if let Some(a) = v["samples"].as_array() {
            for x in a {
                if self.samples.len() < 12 {
                    self.samples.push(x.as_str().unwrap_or("").to_string());
                }
            }
        }
        if let Some(a) = v["succ"].as_array() {
            for x in a {
                self.succ.push((x[0].as_str().unwrap_or("").to_string(), x[1].as_str().unwrap_or("").to_string()));
            }
        }
    }
    pub fn merge(&mut self, o: Totals) {
        self.evals += o.evals;
        self.transitions += o.transitions;
        self.traces += o.traces;
        self.nontrivial += o.nontrivial;
        self.states += o.states;
        for (k, n) in o.outcomes {
            *self.outcomes.entry(k).or_insert(0) += n;
        }
        self.viol_count += o.viol_count;
        for v in o.violations {
            if self.violations.len() < 400 {
                self.violations.push(v);
            }
        }
        for s in o.samples {
            if self.samples.len() < 12 {
                self.samples.push(s);
            }
        }
        self.succ.extend(o.succ);
        self.crashes += o.crashes;
        self.capped |= o.capped;
    }
}

pub fn verif_root() -> PathBuf {
    // <root>/mc/target/<profile>/toodee-mc
    let exe = std::env::current_exe().expect("current_exe");
    exe.parent().and_then(|p| p.parent()).and_then(|p| p.parent()).and_then(|p| p.parent()).expect("layout").to_path_buf()
}
fn bin_for(profile: Profile) -> PathBuf {
    verif_root().join("mc/target").join(profile.name()).join("toodee-mc")
}

struct Spawned {
    child: Child,
    dir: PathBuf,
    list: Vec<String>,
}

struct Job<'a> {
    prop: &'a dyn Prop,
    tier: Tier,
    profile: Profile,
    work: PathBuf,
    seq: u64,
}

const MAX_CRASHES_PER_UNIT: u64 = 6;
const MAX_CRASHES_PER_JOB: u64 = 24;

impl<'a> Job<'a> {
    fn spawn(&mut self, list: Vec<String>, trace: bool, only_case: Option<u64>, start_case: u64) -> Result<Spawned, EngineError> {
        self.seq += 1;
        let dir = self.work.join(format!("w{}", self.seq));
        fs::create_dir_all(&dir).map_err(|e| EngineError(format!("mkdir {:?}: {}", dir, e)))?;
        let mut f = fs::File::create(dir.join("units")).map_err(|e| EngineError(e.to_string()))?;
        for u in &list {
            writeln!(f, "{}", u).map_err(|e| EngineError(e.to_string()))?;
        }
        drop(f);
        let bin = bin_for(self.profile);
        if !bin.exists() {
            return Err(EngineError(format!("worker binary {:?} missing (build profile {})", bin, self.profile.name())));
        }
        let mut cmd = Command::new(&bin);
        cmd.arg("worker")
            .arg("--prop").arg(self.prop.id())
            .arg("--tier").arg(self.tier.name())
            .arg("--profile").arg(self.profile.name())
            .arg("--units").arg(dir.join("units"))
            .arg("--out").arg(dir.join("out"))
            .arg("--journal").arg(dir.join("journal"));
        if trace {
            cmd.arg("--trace").arg(dir.join("trace"));
        }
        if let Some(c) = only_case {
            cmd.arg("--only-case").arg(c.to_string());
        }
        if start_case > 0 {
            cmd.arg("--start-case").arg(start_case.to_string());
        }
        let errf = fs::File::create(dir.join("stderr")).map_err(|e| EngineError(e.to_string()))?;
        cmd.stdin(Stdio::null()).stdout(Stdio::null()).stderr(errf);
        let child = cmd.spawn().map_err(|e| EngineError(format!("spawn {:?}: {}", bin, e)))?;
        Ok(Spawned { child, dir, list })
    }

    /// Reads the out file; returns (totals, last completed position)
    fn collect(dir: &Path) -> (Totals, i64) {
        let mut t = Totals::default();
        let mut done = -1i64;
        if let Ok(s) = fs::read_to_string(dir.join("out")) {
            for line in s.lines() {
                if let Ok(v) = serde_json::from_str::<Value>(line) {
                    t.absorb_line(&v);
                    done = done.max(v["done_pos"].as_i64().unwrap_or(-1));
                }
            }
        }
        (t, done)
    }

    fn stderr_tail(dir: &Path) -> String {
        let s = fs::read_to_string(dir.join("stderr")).unwrap_or_default();
        let lines: Vec<&str> = s.lines().filter(|l| !l.trim().is_empty()).collect();
        let n = lines.len();
        lines[n.saturating_sub(3)..].join(" | ")
    }

    fn describe_exit(st: &std::process::ExitStatus) -> String {
        use std::os::unix::process::ExitStatusExt;
        if let Some(sig) = st.signal() {
            format!("killed by signal {}", sig)
        } else {
            format!("exit status {}", st.code().unwrap_or(-1))
        }
    }

    /// Pinpoints crashing cases of one unit by re-running it alone with per-case tracing.
    fn trace_unit(&mut self, unit: &str, total: &mut Totals) -> Result<(), EngineError> {
        let mut start = 0u64;
        let mut crashes_here = 0u64;
        loop {
            let mut sp = self.spawn(vec![unit.to_string()], true, None, start)?;
            let st = sp.child.wait().map_err(|e| EngineError(e.to_string()))?;
            let (t, _) = Self::collect(&sp.dir);
            total.merge(t);
            if st.success() {
                return Ok(());
            }
            if st.code() == Some(2) {
                return Err(EngineError(format!("worker engine error: {}", Self::stderr_tail(&sp.dir))));
            }
            // crashed: which case?
            let tr = fs::read_to_string(sp.dir.join("trace")).unwrap_or_default();
            let first = tr.lines().next().unwrap_or("").trim_end().to_string();
            let mut parts = first.splitn(3, '\t');
            let head = parts.next().unwrap_or("");
            let _u = parts.next().unwrap_or("");
            let desc = parts.next().unwrap_or("").to_string();
            let err = Self::stderr_tail(&sp.dir);
            let how = Self::describe_exit(&st);
            total.crashes += 1;
            crashes_here += 1;
            if let Some(n) = head.strip_prefix("CASE ").and_then(|n| n.trim().parse::<u64>().ok()) {
                let hang = err.contains("HANG");
                total.viol_count += 1;
                total.violations.push(Violation {
                    sig: if hang { "hang".into() } else { "crash".into() },
                    msg: format!("worker process died ({}) while executing this case: {}", how, err),
                    unit: unit.to_string(),
                    case_no: n,
                    desc,
                });
                start = n + 1;
            } else {
                total.viol_count += 1;
                total.violations.push(Violation {
                    sig: "crash".into(),
                    msg: format!("worker process died ({}) outside any case of this unit: {}", how, err),
                    unit: unit.to_string(),
                    case_no: u64::MAX,
                    desc: String::new(),
                });
                return Ok(());
            }
            if crashes_here >= MAX_CRASHES_PER_UNIT || total.crashes >= MAX_CRASHES_PER_JOB {
                total.capped = true;
                return Ok(());
            }
        }
    }

    fn run(&mut self, units: &[String], workers: usize, seed: u64) -> Result<Totals, EngineError> {
        let mut total = Totals::default();
        if units.is_empty() {
            return Ok(total);
        }
        // more lists than workers: lists are handed to free workers as they finish (load balancing)
        let nlists = (workers * 6).min(units.len()).max(1);
        let mut lists: Vec<Vec<String>> = vec![Vec::new(); nlists];
        for (i, u) in units.iter().enumerate() {
            lists[(i + seed as usize) % nlists].push(u.clone());
        }
        let mut pending: std::collections::VecDeque<Vec<String>> = lists.into_iter().filter(|l| !l.is_empty()).collect();
        let mut running: Vec<Spawned> = Vec::new();
        let mut crashed_units: Vec<String> = Vec::new();
        loop {
            while running.len() < workers {
                match pending.pop_front() {
                    Some(l) => running.push(self.spawn(l, false, None, 0)?),
                    None => break,
                }
            }
            if running.is_empty() {
                break;
            }
            // poll for a finished worker
            let mut finished: Vec<(Spawned, std::process::ExitStatus)> = Vec::new();
            let mut i = 0;
            while i < running.len() {
                match running[i].child.try_wait().map_err(|e| EngineError(e.to_string()))? {
                    Some(st) => {
                        let sp = running.swap_remove(i);
                        finished.push((sp, st));
                    }
                    None => i += 1,
                }
            }
            if finished.is_empty() {
                std::thread::sleep(std::time::Duration::from_millis(2));
                continue;
            }
            for (sp, st) in finished {
                let (t, done) = Self::collect(&sp.dir);
                total.merge(t);
                if st.success() {
                    let _ = fs::remove_dir_all(&sp.dir);
                    continue;
                }
                if st.code() == Some(2) {
                    return Err(EngineError(format!("worker engine error: {}", Self::stderr_tail(&sp.dir))));
                }
                // crashed: journal says which unit position was in flight
                let j = fs::read_to_string(sp.dir.join("journal")).unwrap_or_default();
                let pos = j.lines().next().and_then(|l| l.strip_prefix("UNIT ")).and_then(|n| n.trim().parse::<usize>().ok());
                let pos = match pos {
                    Some(p) if p < sp.list.len() => p,
                    _ => {
                        return Err(EngineError(format!(
                            "worker died ({}) before starting any unit: {}",
                            Self::describe_exit(&st),
                            Self::stderr_tail(&sp.dir)
                        )))
                    }
                };
                crashed_units.push(sp.list[pos].clone());
                let mut rest: Vec<String> = Vec::new();
                let from = (done + 1).max(0) as usize;
                for (i, u) in sp.list.iter().enumerate() {
                    if i >= from && i != pos {
                        rest.push(u.clone());
                    }
                }
                if !rest.is_empty() {
                    pending.push_back(rest);
                }
            }
            for u in crashed_units.drain(..) {
                if total.crashes >= MAX_CRASHES_PER_JOB {
                    total.capped = true;
                    break;
                }
                self.trace_unit(&u, &mut total)?;
            }
            if total.capped {
                for mut sp in running.drain(..) {
                    let _ = sp.child.kill();
                    let _ = sp.child.wait();
                }
                break;
            }
        }
        Ok(total)
    }
}

fn n_workers() -> usize {
    if let Ok(s) = std::env::var("VERIF_WORKERS") {
        if let Ok(n) = s.parse::<usize>() {
            return n.max(1);
        }
    }
    std::thread::available_parallelism().map(|n| n.get()).unwrap_or(4).min(16)
}

struct Finding {
    status: String,
    property: String,
    sig: String,
    what: String,
}

fn load_findings(root: &Path) -> Result<Vec<Finding>, EngineError> {
    // known_findings.txt, one entry per line:
    //   open: property=<id> sig=<signature> <what fails>      (suppresses exactly that signature)
    //   fixed: property=<id> <commit> <what failed>             (suppresses nothing)
    let p = root.join("known_findings.txt");
    let mut out = Vec::new();
    let s = match fs::read_to_string(&p) {
        Ok(s) => s,
        Err(_) => return Ok(out),
    };
    for line in s.lines() {
        let line = line.trim();
        if line.is_empty() || line.starts_with('#') {
            continue;
        }
        let (status, rest) = match line.split_once(':') {
            Some((a, b)) if a == "open" || a == "fixed" => (a.to_string(), b.trim()),
            _ => return Err(EngineError(format!("known_findings.txt: unparsable line: {}", line))),
        };
        let mut it = rest.splitn(3, ' ');
        let property = it.next().unwrap_or("").strip_prefix("property=").unwrap_or("").to_string();
        let second = it.next().unwrap_or("").to_string();
        let what = it.next().unwrap_or("").to_string();
        let sig = if status == "open" { second.strip_prefix("sig=").unwrap_or("").to_string() } else { String::new() };
        if property.is_empty() || (status == "open" && sig.is_empty()) {
            return Err(EngineError(format!("known_findings.txt: unparsable line: {}", line)));
        }
        out.push(Finding { status, property, sig, what });
    }
    Ok(out)
}

fn hash_str(s: &str) -> u64 {
    // FNV-1a, stable across runs
    let mut h = 0xcbf29ce484222325u64;
    for b in s.bytes() {
        h ^= b as u64;
        h = h.wrapping_mul(0x100000001b3);
    }
    h
}

pub struct ProfileReport {
    pub profile: Profile,
    pub totals: Totals,
    pub states: u64,
    pub levels: u64,
    pub validated: u64,
    pub wall_s: f64,
}

fn run_profile(prop: &dyn Prop, tier: Tier, profile: Profile, work: &Path, seed: u64) -> Result<ProfileReport, EngineError> {
    let t0 = Instant::now();
    let mut job = Job { prop, tier, profile, work: work.join(profile.name()), seq: 0 };
    let workers = n_workers();
    let mut rep = ProfileReport { profile, totals: Totals::default(), states: 0, levels: 0, validated: 0, wall_s: 0.0 };
    match prop.kind() {
        Kind::Enumerate => {
            let units = prop.units(tier);
            rep.totals = job.run(&units, workers, seed)?;
            rep.states = rep.totals.states;
            rep.validated = rep.totals.traces;
        }
        Kind::Bfs => {
            // level-synchronous BFS over state keys; the driver owns the visited set
            let mut parent: HashMap<String, (String, String)> = HashMap::new(); // key -> (parent key, action)
            let mut order: Vec<String> = Vec::new();
            let init = prop.units(tier);
            let mut t = job.run(&init, workers, seed)?;
            let mut frontier: Vec<String> = Vec::new();
            let mut succ = std::mem::take(&mut t.succ);
            rep.totals.merge(t);
            loop {
                succ.sort();
                succ.dedup_by(|a, b| a.0 == b.0);
                for (k, a) in succ.drain(..) {
                    if !parent.contains_key(&k) {
                        // a = "<parent key or empty>\t<action>"
                        let mut it = a.splitn(2, '\t');
                        let pk = it.next().unwrap_or("").to_string();
                        let act = it.next().unwrap_or("").to_string();
                        parent.insert(k.clone(), (pk, act));
                        order.push(k.clone());
                        frontier.push(k);
                    }
                }
                if frontier.is_empty() || rep.totals.capped {
                    break;
                }
                rep.levels += 1;
                let units: Vec<String> = frontier.drain(..).map(|k| format!("state:{}", k)).collect();
                let mut t = job.run(&units, workers, seed)?;
                succ = std::mem::take(&mut t.succ);
                rep.totals.merge(t);
            }
            rep.states = order.len() as u64;
            // witness replay: shortest history of every state on one live object
            let mut units = Vec::with_capacity(order.len());
            for k in &order {
                let mut hist: Vec<&str> = Vec::new();
                let mut cur = k.as_str();
                loop {
                    let (pk, act) = &parent[cur];
                    hist.push(act.as_str());
                    if pk.is_empty() {
                        break;
                    }
                    cur = pk.as_str();
                }
                hist.reverse();
                units.push(format!("replay:{}|{}", hist.join(";"), k));
            }
            let before = rep.totals.viol_count;
            let t = job.run(&units, workers, seed)?;
            rep.validated = t.traces;
            let mut t2 = t;
            t2.traces = 0;
            rep.totals.merge(t2);
            let _ = before;
        }
    }
    rep.wall_s = t0.elapsed().as_secs_f64();
    Ok(rep)
}

/// Re-executes one recorded case in a fresh worker; returns the violations it reports (a crash
/// is reported as a violation with sig "crash"/"hang").
fn replay_case(prop: &dyn Prop, tier: Tier, profile: Profile, unit: &str, case_no: u64, work: &Path) -> Result<Totals, EngineError> {
    let mut job = Job { prop, tier, profile, work: work.join(format!("replay-{}", profile.name())), seq: hash_str(unit) % 100000 + case_no % 1000 };
    let mut total = Totals::default();
    let mut sp = job.spawn(vec![unit.to_string()], true, if case_no == u64::MAX { None } else { Some(case_no) }, 0)?;
    let st = sp.child.wait().map_err(|e| EngineError(e.to_string()))?;
    let (t, _) = Job::collect(&sp.dir);
    total.merge(t);
    if !st.success() {
        if st.code() == Some(2) {
            return Err(EngineError(format!("worker engine error: {}", Job::stderr_tail(&sp.dir))));
        }
        let err = Job::stderr_tail(&sp.dir);
        total.viol_count += 1;
        total.violations.push(Violation {
            sig: if err.contains("HANG") { "hang".into() } else { "crash".into() },
            msg: format!("worker process died ({}): {}", Job::describe_exit(&st), err),
            unit: unit.to_string(),
            case_no,
            desc: String::new(),
        });
    }
    let _ = fs::remove_dir_all(&sp.dir);
    Ok(total)
}

pub fn check(prop: &dyn Prop, tier: Tier) -> i32 {
    let root = verif_root();
    let seed: u64 = std::env::var("VERIF_SEED").ok().and_then(|s| s.parse().ok()).unwrap_or(0);
    let work = root.join("work").join(format!("{}-{}", prop.id(), std::process::id()));
    let _ = fs::remove_dir_all(&work);
    let r = check_inner(prop, tier, &root, &work, seed);
    let _ = fs::remove_dir_all(&work);
    match r {
        Ok(code) => code,
        Err(EngineError(m)) => {
            eprintln!("ENGINE-ERROR property={} {}", prop.id(), m);
            println!("ENGINE-ERROR property={} (machinery failure, not a verdict): {}", prop.id(), m);
            2
        }
    }
}

fn check_inner(prop: &dyn Prop, tier: Tier, root: &Path, work: &Path, seed: u64) -> Result<i32, EngineError> {
    let t0 = Instant::now();
    let findings = load_findings(root)?;
    let mut reports = Vec::new();
    for p in prop.profiles(tier) {
        let rep = run_profile(prop, tier, p, work, seed)?;
        println!(
            "[{} {} {}] evals={} transitions={} states={} nontrivial={} validated={} violations={} crashes={} wall={:.1}s",
            prop.id(), tier.name(), p.name(), rep.totals.evals, rep.totals.transitions, rep.states, rep.totals.nontrivial,
            rep.validated, rep.totals.viol_count, rep.totals.crashes, rep.wall_s
        );
        reports.push(rep);
    }

    // non-vacuity: a run that executed nothing is a machinery failure
    let total_evals: u64 = reports.iter().map(|r| r.totals.evals).sum();
    if total_evals == 0 && reports.iter().all(|r| r.totals.viol_count == 0) {
        return Err(EngineError("no case was executed".into()));
    }

    // classify violations
    let mut new_viol: Vec<(Profile, Violation)> = Vec::new();
    let mut known: BTreeMap<String, (String, u64)> = BTreeMap::new();
    for rep in &reports {
        for v in &rep.totals.violations {
            let k = findings.iter().find(|f| f.status == "open" && f.property == prop.id() && f.sig == v.sig);
            match k {
                Some(f) => {
                    let e = known.entry(f.sig.clone()).or_insert((f.what.clone(), 0));
                    e.1 += 1;
                }
                None => new_viol.push((rep.profile, v.clone())),
            }
        }
    }
    let capped = reports.iter().any(|r| r.totals.capped);
    let viol_total: u64 = reports.iter().map(|r| r.totals.viol_count).sum();

    // confirm determinism of the first few new violations by replaying them alone
    let mut confirmed: Vec<(Profile, Violation, String)> = Vec::new();
    fs::create_dir_all(root.join("replays")).ok();
    let mut seen_sig: BTreeMap<String, u32> = BTreeMap::new();
    for (p, v) in &new_viol {
        let n = seen_sig.entry(format!("{}/{}", p.name(), v.sig)).or_insert(0);
        *n += 1;
        if *n > 3 || confirmed.len() >= 12 {
            continue;
        }
        let t = replay_case(prop, tier, *p, &v.unit, v.case_no, work)?;
        let crashy = |s: &str| s == "crash" || s == "hang";
        let ok = t.violations.iter().any(|x| x.sig == v.sig || (crashy(&x.sig) && crashy(&v.sig)));
        if !ok {
            return Err(EngineError(format!(
                "violation did not reproduce when its case was replayed alone (profile {}, unit {}, case {}, sig {}): nondeterminism in the harness",
                p.name(), v.unit, v.case_no, v.sig
            )));
        }
        let body = json!({
            "property": prop.id(), "tier": tier.name(), "profile": p.name(), "unit": v.unit, "case_no": v.case_no,
            "sig": v.sig, "case": v.desc, "observed": v.msg,
        });
        let name = format!("{}-{:016x}.json", prop.id(), hash_str(&format!("{}{}{}{}", p.name(), v.unit, v.case_no, v.sig)));
        let path = root.join("replays").join(&name);
        fs::write(&path, serde_json::to_string_pretty(&body).unwrap()).map_err(|e| EngineError(e.to_string()))?;
        confirmed.push((*p, v.clone(), path.to_string_lossy().to_string()));
    }

    // evidence
    let level = prop.level();
    let mut cov = serde_json::Map::new();
    let evals: u64 = reports.iter().map(|r| r.totals.evals).sum();
    let nontriv: u64 = reports.iter().map(|r| r.totals.nontrivial).sum();
    let mut samples: Vec<Value> = Vec::new();
    for r in &reports {
        for s in r.totals.samples.iter().take(4) {
            samples.push(json!(format!("{}: {}", r.profile.name(), s)));
        }
    }
    cov.insert("evaluations".into(), json!(evals));
    cov.insert("distinct_nontrivial".into(), json!(nontriv));
    cov.insert("rule".into(), json!(prop.rule()));
    cov.insert("samples".into(), json!(samples));
    cov.insert("exhaustive".into(), json!(!capped));
    cov.insert("bound".into(), json!(prop.bound(tier)));
    if level == "model_checking" {
        cov.insert("states".into(), json!(reports.iter().map(|r| r.states).max().unwrap_or(0)));
        cov.insert("states_note".into(), json!("distinct states of one profile's exploration (the same space is explored once per build profile; see per_profile); transitions and traces are summed over profiles because each is a separate execution of the real code"));
        cov.insert("transitions".into(), json!(reports.iter().map(|r| r.totals.transitions).sum::<u64>()));
        cov.insert("traces_validated_against_impl".into(), json!(reports.iter().map(|r| r.validated).sum::<u64>()));
    }
    let per: Vec<Value> = reports
        .iter()
        .map(|r| {
            json!({
                "profile": r.profile.name(), "evaluations": r.totals.evals, "transitions": r.totals.transitions,
                "states": r.states, "bfs_levels": r.levels, "distinct_nontrivial": r.totals.nontrivial,
                "traces_validated_against_impl": r.validated, "outcomes": r.totals.outcomes,
                "violations": r.totals.viol_count, "worker_crashes": r.totals.crashes, "capped": r.totals.capped,
                "wall_s": r.wall_s,
            })
        })
        .collect();
    cov.insert("per_profile".into(), json!(per));
    let mut outcomes: BTreeMap<String, u64> = BTreeMap::new();
    for r in &reports {
        for (k, n) in &r.totals.outcomes {
            *outcomes.entry(k.clone()).or_insert(0) += n;
        }
    }
    cov.insert("distinct_outcomes".into(), json!(outcomes.len()));
    cov.insert("known_findings_matched".into(), json!(known.iter().map(|(k, v)| json!({"sig": k, "count": v.1})).collect::<Vec<_>>()));
    let ev = json!({
        "property_id": prop.id(),
        "tier": tier.name(),
        "seed": seed,
        "level": level,
        "coverage": Value::Object(cov),
        "assumptions": prop.assumptions(),
        "wall_s": t0.elapsed().as_secs_f64(),
        "violations": new_viol.len() as u64,
    });
    fs::create_dir_all(root.join("evidence")).ok();
    fs::write(root.join("evidence").join(format!("{}.json", prop.id())), serde_json::to_string_pretty(&ev).unwrap())
        .map_err(|e| EngineError(e.to_string()))?;

    // non-vacuity checks that make the evidence schema-valid
    if nontriv < 2 && new_viol.is_empty() {
        return Err(EngineError("fewer than two distinct non-trivial cases: vacuous run".into()));
    }

    for (sig, (what, n)) in &known {
        println!("KNOWN-FINDING: property={} {} [sig={} occurrences={}]", prop.id(), what, sig, n);
    }
    if new_viol.is_empty() {
        println!("OK property={} tier={} evaluations={} violations_total={} (all matched known findings: {})", prop.id(), tier.name(), evals, viol_total, known.len());
        return Ok(0);
    }
    let mut hist: BTreeMap<String, u64> = BTreeMap::new();
    for (p, v) in &new_viol {
        *hist.entry(format!("{}/{}", p.name(), v.sig)).or_insert(0) += 1;
    }
    for (k, n) in &hist {
        println!("  violations by profile/signature: {} x{}", k, n);
    }
    for (p, v, path) in &confirmed {
        println!("VIOLATION property={} replay={}", prop.id(), path);
        println!("  profile={} sig={} case: {}", p.name(), v.sig, v.desc);
        println!("  observed: {}", v.msg);
    }
    println!(
        "FAILED property={} new_violations={} (replay files written for {}){}",
        prop.id(), new_viol.len(), confirmed.len(),
        if capped { " [exploration capped after repeated worker crashes: coverage incomplete]" } else { "" }
    );
    Ok(1)
}

pub fn replay(props: &[&dyn Prop], path: &str) -> i32 {
    let root = verif_root();
    let s = match fs::read_to_string(path) {
        Ok(s) => s,
        Err(e) => {
            eprintln!("ENGINE-ERROR cannot read {}: {}", path, e);
            return 2;
        }
    };
    let v: Value = match serde_json::from_str(&s) {
        Ok(v) => v,
        Err(e) => {
            eprintln!("ENGINE-ERROR bad replay file: {}", e);
            return 2;
        }
    };
    let id = v["property"].as_str().unwrap_or("");
    let prop = match props.iter().find(|p| p.id() == id) {
        Some(p) => *p,
        None => {
            eprintln!("ENGINE-ERROR unknown property {}", id);
            return 2;
        }
    };
    let tier = Tier::parse(v["tier"].as_str().unwrap_or("quick")).unwrap_or(Tier::Quick);
    let profile = Profile::parse(v["profile"].as_str().unwrap_or("chk")).unwrap_or(Profile::Chk);
    let unit = v["unit"].as_str().unwrap_or("").to_string();
    let case_no = v["case_no"].as_u64().unwrap_or(u64::MAX);
    let work = root.join("work").join(format!("replay-{}", std::process::id()));
    let r = replay_case(prop, tier, profile, &unit, case_no, &work);
    let _ = fs::remove_dir_all(&work);
    match r {
        Ok(t) => {
            if t.violations.is_empty() {
                println!("REPLAY property={} case passes (evaluations={})", id, t.evals);
                0
            } else {
                println!("VIOLATION property={} replay={}", id, path);
                for x in &t.violations {
                    println!("  sig={} case: {}", x.sig, x.desc);
                    println!("  observed: {}", x.msg);
                }
                1
            }
        }
        Err(EngineError(m)) => {
            eprintln!("ENGINE-ERROR {}", m);
            2
        }
    }
}
