pub mod ctx;
pub mod driver;
pub mod galloc;
pub mod ledger;
pub mod util;
pub mod worker;

pub use ctx::{guarded, Case, Ctx, Profile, Tier, Violation};

#[derive(Clone, Copy, PartialEq, Eq)]
pub enum Kind {
    /// `units()` lists every unit up front.
    Enumerate,
    /// `units()` lists the initial units; units report successors (state keys) that the driver
    /// deduplicates and turns into `state:<key>` units, level by level, to fixpoint; afterwards
    /// every state's shortest history is replayed on one live object (`replay:<history>|<key>`).
    Bfs,
}

pub trait Prop: Sync {
    fn id(&self) -> &'static str;
    /// MANIFEST / evidence level: exploration | fault_enumeration | model_checking
    fn level(&self) -> &'static str;
    fn kind(&self) -> Kind {
        Kind::Enumerate
    }
    fn profiles(&self, tier: Tier) -> Vec<Profile>;
    fn units(&self, tier: Tier) -> Vec<String>;
    fn run_unit(&self, unit: &str, ctx: &mut Ctx);
    /// How cases are enumerated and what makes one distinct / non-trivial.
    fn rule(&self) -> String;
    /// The bound completed in this tier, in words.
    fn bound(&self, tier: Tier) -> String;
    fn assumptions(&self) -> Vec<String> {
        Vec::new()
    }
    /// Run the workers of this (tier, profile) with the page-guard allocator (every heap block
    /// ends at an inaccessible page: over-reads fault). Slower; default off.
    fn page_guard(&self, _tier: Tier, _profile: Profile) -> bool {
        false
    }
}
