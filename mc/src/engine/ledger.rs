//! Tracked elements, the drop ledger and the fault clock (DESIGN.md 3.3, 3.4).
//!
//! Everything here is thread-local; a worker process executes its cases on one thread.

use std::cell::{Cell, RefCell};
use std::cmp::Ordering;

const MAGIC: u64 = 0x5EED_C0DE_D00D_F00D;

#[derive(Default)]
pub struct Ledger {
    /// status per id: 1 = live, 2 = dropped
    status: Vec<u8>,
    pub double_drops: u64,
    pub garbage_drops: u64,
    pub first_problem: Option<String>,
}

thread_local! {
    static LEDGER: RefCell<Ledger> = RefCell::new(Ledger::default());
    static TICK: Cell<u64> = const { Cell::new(0) };
    static FAULT_AT: Cell<u64> = const { Cell::new(u64::MAX) };
    static FAULT_KIND: Cell<&'static str> = const { Cell::new("") };
    static ZST_CREATED: Cell<u64> = const { Cell::new(0) };
    static ZST_DROPPED: Cell<u64> = const { Cell::new(0) };
}

/// Payload of injected panics.
pub struct InjectedFault;

/// Called on every entry into "caller supplied code".
#[inline]
pub fn tick(kind: &'static str) {
    if std::thread::panicking() {
        return;
    }
    let t = TICK.with(|c| {
        let t = c.get();
        c.set(t + 1);
        t
    });
    if FAULT_AT.with(|c| c.get()) == t {
        FAULT_AT.with(|c| c.set(u64::MAX));
        FAULT_KIND.with(|c| c.set(kind));
        std::panic::panic_any(InjectedFault);
    }
}

pub fn ticks() -> u64 {
    TICK.with(|c| c.get())
}
/// Arms the clock: the call number `k` (counted from the moment of arming) panics.
pub fn arm(k: u64) {
    TICK.with(|c| c.set(0));
    FAULT_AT.with(|c| c.set(k));
    FAULT_KIND.with(|c| c.set(""));
}
pub fn disarm() -> u64 {
    FAULT_AT.with(|c| c.set(u64::MAX));
    ticks()
}
pub fn fault_kind() -> &'static str {
    FAULT_KIND.with(|c| c.get())
}

pub fn reset() {
    LEDGER.with(|l| *l.borrow_mut() = Ledger::default());
    TICK.with(|c| c.set(0));
    FAULT_AT.with(|c| c.set(u64::MAX));
    ZST_CREATED.with(|c| c.set(0));
    ZST_DROPPED.with(|c| c.set(0));
}

/// Number of elements currently live.
pub fn live_count() -> usize {
    LEDGER.with(|l| l.borrow().status.iter().filter(|s| **s == 1).count())
}
pub fn live_ids() -> Vec<u64> {
    LEDGER.with(|l| {
        l.borrow().status.iter().enumerate().filter(|(_, s)| **s == 1).map(|(i, _)| i as u64).collect()
    })
}
pub fn is_live(id: u64) -> bool {
    LEDGER.with(|l| l.borrow().status.get(id as usize).copied() == Some(1))
}
pub fn created_count() -> usize {
    LEDGER.with(|l| l.borrow().status.len())
}
/// (double drops, drops of garbage, first problem text)
pub fn problems() -> (u64, u64, Option<String>) {
    LEDGER.with(|l| {
        let l = l.borrow();
        (l.double_drops, l.garbage_drops, l.first_problem.clone())
    })
}

/// An element that owns a (virtual) resource: registered on creation, deregistered on drop.
pub struct Tracked {
    pub id: u64,
    pub label: u32,
    canary: u64,
}

impl Tracked {
    pub fn new(label: u32) -> Tracked {
        let id = LEDGER.with(|l| {
            let mut l = l.borrow_mut();
            l.status.push(1);
            (l.status.len() - 1) as u64
        });
        Tracked { id, label, canary: id ^ MAGIC }
    }
    /// True if this value looks like a properly constructed, still-live element.
    pub fn valid(&self) -> bool {
        self.canary == self.id ^ MAGIC && is_live(self.id)
    }
    pub fn canary_ok(&self) -> bool {
        self.canary == self.id ^ MAGIC
    }
}

impl Drop for Tracked {
    fn drop(&mut self) {
        let ok = self.canary == self.id ^ MAGIC;
        LEDGER.with(|l| {
            let mut l = l.borrow_mut();
            if !ok {
                l.garbage_drops += 1;
                if l.first_problem.is_none() {
                    l.first_problem = Some(format!("drop of a value that was never constructed (id bits {:#x})", self.id));
                }
                return;
            }
            match l.status.get(self.id as usize).copied() {
                Some(1) => l.status[self.id as usize] = 2,
                Some(_) => {
                    l.double_drops += 1;
                    if l.first_problem.is_none() {
                        l.first_problem = Some(format!("element id {} (label {}) dropped twice", self.id, self.label));
                    }
                }
                None => {
                    l.garbage_drops += 1;
                    if l.first_problem.is_none() {
                        l.first_problem = Some(format!("drop of unknown id {}", self.id));
                    }
                }
            }
        });
        tick("drop");
    }
}

impl Clone for Tracked {
    fn clone(&self) -> Tracked {
        tick("clone");
        Tracked::new(self.label)
    }
}
impl Default for Tracked {
    fn default() -> Tracked {
        tick("default");
        Tracked::new(0)
    }
}
impl PartialEq for Tracked {
    fn eq(&self, o: &Tracked) -> bool {
        self.label == o.label
    }
}
impl Eq for Tracked {}
impl PartialOrd for Tracked {
    fn partial_cmp(&self, o: &Tracked) -> Option<Ordering> {
        Some(self.cmp(o))
    }
}
impl Ord for Tracked {
    fn cmp(&self, o: &Tracked) -> Ordering {
        tick("cmp");
        self.label.cmp(&o.label)
    }
}
impl std::fmt::Debug for Tracked {
    fn fmt(&self, f: &mut std::fmt::Formatter<'_>) -> std::fmt::Result {
        write!(f, "#{}:{}", self.id, self.label)
    }
}

impl serde::Serialize for Tracked {
    fn serialize<S: serde::Serializer>(&self, s: S) -> Result<S::Ok, S::Error> {
        s.serialize_u32(self.label)
    }
}
impl<'de> serde::Deserialize<'de> for Tracked {
    fn deserialize<D: serde::Deserializer<'de>>(d: D) -> Result<Tracked, D::Error> {
        <u32 as serde::Deserialize>::deserialize(d).map(Tracked::new)
    }
}

/// Zero-sized element with drop side effects: only counts can be observed.
pub struct TrackedZst;
impl TrackedZst {
    pub fn new() -> TrackedZst {
        ZST_CREATED.with(|c| c.set(c.get() + 1));
        TrackedZst
    }
}
impl Drop for TrackedZst {
    fn drop(&mut self) {
        ZST_DROPPED.with(|c| c.set(c.get() + 1));
    }
}
impl Clone for TrackedZst {
    fn clone(&self) -> TrackedZst {
        TrackedZst::new()
    }
}
impl Default for TrackedZst {
    fn default() -> TrackedZst {
        TrackedZst::new()
    }
}
pub fn zst_created() -> u64 {
    ZST_CREATED.with(|c| c.get())
}
pub fn zst_dropped() -> u64 {
    ZST_DROPPED.with(|c| c.get())
}

/// An exact-size, double-ended iterator over owned elements whose every call ticks the fault
/// clock and whose reported length can be made to lie.
pub struct FaultIter<T> {
    items: std::collections::VecDeque<T>,
    /// What `len()` reports instead of the truth (None = honest).
    pub lie: Option<usize>,
}
impl<T> FaultIter<T> {
    pub fn new(items: Vec<T>) -> Self {
        FaultIter { items: items.into(), lie: None }
    }
    pub fn lying(items: Vec<T>, len: usize) -> Self {
        FaultIter { items: items.into(), lie: Some(len) }
    }
    pub fn remaining(mut self) -> Vec<T> {
        std::mem::take(&mut self.items).into_iter().collect()
    }
}
/// The iterator's own destructor is caller code too: it ticks the fault clock (not while unwinding).
impl<T> Drop for FaultIter<T> {
    fn drop(&mut self) {
        tick("iter.drop");
    }
}
impl<T> Iterator for FaultIter<T> {
    type Item = T;
    fn next(&mut self) -> Option<T> {
        tick("iter.next");
        self.items.pop_front()
    }
    fn size_hint(&self) -> (usize, Option<usize>) {
        tick("iter.len");
        let n = self.lie.unwrap_or(self.items.len());
        (n, Some(n))
    }
}
impl<T> DoubleEndedIterator for FaultIter<T> {
    fn next_back(&mut self) -> Option<T> {
        tick("iter.next_back");
        self.items.pop_back()
    }
}
impl<T> ExactSizeIterator for FaultIter<T> {
    fn len(&self) -> usize {
        tick("iter.len");
        self.lie.unwrap_or(self.items.len())
    }
}
impl PartialEq for TrackedZst {
    fn eq(&self, _: &TrackedZst) -> bool {
        true
    }
}
impl Eq for TrackedZst {}
impl PartialOrd for TrackedZst {
    fn partial_cmp(&self, o: &TrackedZst) -> Option<Ordering> {
        Some(self.cmp(o))
    }
}
impl Ord for TrackedZst {
    fn cmp(&self, _: &TrackedZst) -> Ordering {
        Ordering::Equal
    }
}
impl std::fmt::Debug for TrackedZst {
    fn fmt(&self, f: &mut std::fmt::Formatter<'_>) -> std::fmt::Result {
        write!(f, "Z")
    }
}
