//! Per-worker execution context: case bookkeeping, journal, counters, violations.

use std::collections::{BTreeMap, HashSet};
use std::fs::File;
use std::hash::{Hash, Hasher};
use std::os::unix::fs::FileExt;
use std::panic::{catch_unwind, AssertUnwindSafe};
use std::sync::atomic::{AtomicU64, Ordering};

use super::{galloc, ledger};

pub static PROGRESS: AtomicU64 = AtomicU64::new(0);

#[derive(Clone, Copy, PartialEq, Eq, Debug)]
pub enum Tier {
    Quick,
    Thorough,
}
impl Tier {
    pub fn name(self) -> &'static str {
        match self {
            Tier::Quick => "quick",
            Tier::Thorough => "thorough",
        }
    }
    pub fn parse(s: &str) -> Option<Tier> {
        match s {
            "quick" => Some(Tier::Quick),
            "thorough" => Some(Tier::Thorough),
            _ => None,
        }
    }
    pub fn pick<T>(self, q: T, t: T) -> T {
        match self {
            Tier::Quick => q,
            Tier::Thorough => t,
        }
    }
}

#[derive(Clone, Copy, PartialEq, Eq, Debug, PartialOrd, Ord)]
pub enum Profile {
    Chk,
    Wrap,
    Rel,
}
impl Profile {
    pub fn name(self) -> &'static str {
        match self {
            Profile::Chk => "chk",
            Profile::Wrap => "wrap",
            Profile::Rel => "rel",
        }
    }
    pub fn parse(s: &str) -> Option<Profile> {
        match s {
            "chk" => Some(Profile::Chk),
            "wrap" => Some(Profile::Wrap),
            "rel" => Some(Profile::Rel),
            _ => None,
        }
    }
    /// The profile this binary was compiled with.
    pub fn current() -> Profile {
        if cfg!(debug_assertions) {
            // distinguish chk / wrap by probing overflow behaviour at run time
            let x = std::hint::black_box(usize::MAX);
            let r = catch_unwind(|| x + std::hint::black_box(1));
            if r.is_err() {
                Profile::Chk
            } else {
                Profile::Wrap
            }
        } else {
            Profile::Rel
        }
    }
}

#[derive(Clone, Debug)]
pub struct Violation {
    pub sig: String,
    pub msg: String,
    pub unit: String,
    pub case_no: u64,
    pub desc: String,
}

/// What a case body reports.
pub struct Case {
    pub fails: Vec<(String, String)>,
    nontrivial: Option<u64>,
    outcome: &'static str,
    state: Option<u64>,
    pub transitions: u64,
    pub traces: u64,
    pub tier: Tier,
    pub profile: Profile,
}
impl Case {
    /// Record a property violation. `sig` is the stable class signature used for known findings.
    pub fn fail(&mut self, sig: &str, msg: String) {
        if self.fails.len() < 4 {
            self.fails.push((sig.to_string(), msg));
        }
    }
    pub fn failed(&self) -> bool {
        !self.fails.is_empty()
    }
    /// Mark this case as non-trivial by the property's rule; `h` identifies it for distinct counting.
    pub fn nontrivial<H: Hash>(&mut self, h: H) {
        let mut s = std::collections::hash_map::DefaultHasher::new();
        h.hash(&mut s);
        self.nontrivial = Some(s.finish());
    }
    pub fn outcome(&mut self, o: &'static str) {
        self.outcome = o;
    }
    /// For sequence explorers: the canonical (model) state reached, for distinct-state counting.
    pub fn state<H: Hash>(&mut self, h: H) {
        let mut s = std::collections::hash_map::DefaultHasher::new();
        h.hash(&mut s);
        self.state = Some(s.finish());
    }
}

pub struct Ctx {
    pub tier: Tier,
    pub profile: Profile,
    pub evals: u64,
    pub transitions: u64,
    pub traces: u64,
    pub nontrivial: u64,
    pub states: u64,
    pub outcomes: BTreeMap<&'static str, u64>,
    pub violations: Vec<Violation>,
    pub viol_count: u64,
    pub samples: Vec<String>,
    /// BFS successors discovered by this unit: (key, action that produced it)
    pub succ: Vec<(String, String)>,
    pub unit: String,
    case_no: u64,
    pub only_case: Option<u64>,
    pub start_case: u64,
    pub trace: Option<File>,
    distinct: HashSet<u64>,
    distinct_states: HashSet<u64>,
    sample_budget: usize,
    pub out: Option<File>,
    /// position (in this worker's unit list) of the last completed unit, -1 if none
    pub done_pos: i64,
    pub flush_on_violation: bool,
}

pub fn panic_msg(e: &(dyn std::any::Any + Send)) -> String {
    if let Some(s) = e.downcast_ref::<&str>() {
        s.to_string()
    } else if let Some(s) = e.downcast_ref::<String>() {
        s.clone()
    } else if e.downcast_ref::<ledger::InjectedFault>().is_some() {
        "<injected fault>".to_string()
    } else {
        "<non-string panic payload>".to_string()
    }
}

impl Ctx {
    pub fn new(tier: Tier, profile: Profile) -> Ctx {
        Ctx {
            tier,
            profile,
            evals: 0,
            transitions: 0,
            traces: 0,
            nontrivial: 0,
            states: 0,
            outcomes: BTreeMap::new(),
            violations: Vec::new(),
            viol_count: 0,
            samples: Vec::new(),
            succ: Vec::new(),
            unit: String::new(),
            case_no: 0,
            only_case: None,
            start_case: 0,
            trace: None,
            distinct: HashSet::new(),
            distinct_states: HashSet::new(),
            sample_budget: 2,
            out: None,
            done_pos: -1,
            flush_on_violation: false,
        }
    }

    /// Appends everything accumulated since the last flush as one JSON line and resets it.
    pub fn flush(&mut self) {
        use std::io::Write;
        let v = serde_json::json!({
            "done_pos": self.done_pos,
            "evals": self.evals,
            "transitions": self.transitions,
            "traces": self.traces,
            "nontrivial": self.nontrivial,
            "states": self.states,
            "outcomes": self.outcomes.iter().map(|(k, v)| (k.to_string(), *v)).collect::<BTreeMap<String, u64>>(),
            "viol_count": self.viol_count,
            "violations": self.violations.iter().map(|v| serde_json::json!({
                "sig": v.sig, "msg": v.msg, "unit": v.unit, "case_no": v.case_no, "desc": v.desc})).collect::<Vec<_>>(),
            "samples": self.samples,
            "succ": self.succ.iter().map(|(k, a)| serde_json::json!([k, a])).collect::<Vec<_>>(),
        });
        if let Some(f) = &mut self.out {
            let mut line = v.to_string();
            line.push('\n');
            let _ = f.write_all(line.as_bytes());
            let _ = f.flush();
        }
        self.evals = 0;
        self.transitions = 0;
        self.traces = 0;
        self.nontrivial = 0;
        self.states = 0;
        self.outcomes.clear();
        self.viol_count = 0;
        self.violations.clear();
        self.samples.clear();
        self.succ.clear();
    }

    pub fn begin_unit(&mut self, unit: &str) {
        self.unit = unit.to_string();
        self.case_no = 0;
        self.distinct.clear();
        self.distinct_states.clear();
        self.sample_budget = 2;
    }

    /// Successor state for BFS-type properties.
    pub fn successor(&mut self, key: String, action: String) {
        self.succ.push((key, action));
    }

    /// Run one case. `desc` is only evaluated when tracing, sampling or on a violation.
    pub fn case<D: Fn() -> String>(&mut self, desc: D, body: impl FnOnce(&mut Case)) {
        self.case_impl(desc, body, false)
    }

    /// A case whose result later cases depend on (e.g. a counting run): its body is executed even
    /// when a replay / resume skips it, but it is only recorded when it is selected.
    pub fn pilot_case<D: Fn() -> String>(&mut self, desc: D, body: impl FnOnce(&mut Case)) {
        self.case_impl(desc, body, true)
    }

    fn case_impl<D: Fn() -> String>(&mut self, desc: D, body: impl FnOnce(&mut Case), pilot: bool) {
        let no = self.case_no;
        self.case_no += 1;
        let selected = self.only_case.map_or(true, |o| o == no) && no >= self.start_case;
        if !selected {
            if pilot {
                ledger::reset();
                let mut c = Case { fails: Vec::new(), nontrivial: None, outcome: "", state: None, transitions: 0, traces: 0, tier: self.tier, profile: self.profile };
                let _ = catch_unwind(AssertUnwindSafe(|| body(&mut c)));
                let _ = galloc::take_errors();
            }
            return;
        }
        PROGRESS.fetch_add(1, Ordering::Relaxed);
        if let Some(f) = &self.trace {
            let mut s = format!("CASE {}\t{}\t{}", no, self.unit, desc());
            s.push('\n');
            // fixed-size record at offset 0, padded so that an older, longer record never shows through
            let mut bytes = s.into_bytes();
            bytes.resize(bytes.len().max(4096), b' ');
            let _ = f.write_at(&bytes, 0);
        }
        ledger::reset();
        let mut c = Case {
            fails: Vec::new(),
            nontrivial: None,
            outcome: "",
            state: None,
            transitions: 0,
            traces: 0,
            tier: self.tier,
            profile: self.profile,
        };
        let r = catch_unwind(AssertUnwindSafe(|| body(&mut c)));
        if let Err(e) = r {
            c.fail("unexpected-panic", format!("panic escaped where none is allowed: {}", panic_msg(&*e)));
        }
        let (n, size, side) = galloc::take_errors();
        if n > 0 {
            c.fail(
                "heap-corruption",
                format!("guard allocator: {} block(s) with corrupted red zone (first: block of {} bytes, {})", n, size, match side {
                    1 => "written before the start",
                    2 => "written past the end",
                    _ => "header destroyed",
                }),
            );
        }
        self.evals += 1;
        self.transitions += c.transitions;
        self.traces += c.traces;
        if let Some(h) = c.nontrivial {
            if self.distinct.insert(h) {
                self.nontrivial += 1;
            }
        }
        if let Some(h) = c.state {
            if self.distinct_states.insert(h) {
                self.states += 1;
            }
        }
        if !c.outcome.is_empty() {
            *self.outcomes.entry(c.outcome).or_insert(0) += 1;
        }
        if !c.fails.is_empty() {
            let d = desc();
            for (sig, msg) in c.fails {
                self.viol_count += 1;
                if self.violations.len() < 40 {
                    self.violations.push(Violation { sig, msg, unit: self.unit.clone(), case_no: no, desc: d.clone() });
                }
            }
            if self.flush_on_violation {
                let keep = self.done_pos;
                self.flush();
                self.done_pos = keep;
            }
        } else if self.sample_budget > 0 && c.nontrivial.is_some() && self.samples.len() < 6 {
            self.sample_budget -= 1;
            self.samples.push(format!("[{}] {} -> {}", self.unit, desc(), if c.outcome.is_empty() { "ok" } else { c.outcome }));
        }
    }
}

/// Runs `f`, catching a panic; returns Err(message) on panic.
pub fn guarded<R>(f: impl FnOnce() -> R) -> Result<R, String> {
    catch_unwind(AssertUnwindSafe(f)).map_err(|e| panic_msg(&*e))
}
