//! Worker process: executes units of one property in one build profile. The only place where
//! toodee code runs. Crashes (abort, SIGSEGV, allocation bombs, hangs) kill this process, never
//! the driver; the journal tells the driver which unit / case was in flight.

use std::fs::{File, OpenOptions};
use std::io::{BufRead, BufReader};
use std::os::unix::fs::FileExt;
use std::sync::atomic::Ordering;
use std::time::{Duration, Instant};

use super::ctx::{Ctx, Profile, Tier, PROGRESS};
use super::{galloc, Prop};

pub struct WorkerArgs {
    pub tier: Tier,
    pub profile: Profile,
    pub units_file: String,
    pub out_file: String,
    pub journal_file: String,
    pub trace_file: Option<String>,
    pub only_case: Option<u64>,
    pub start_case: u64,
}

pub const HANG_SECS: u64 = 25;

pub fn run(prop: &dyn Prop, a: WorkerArgs) -> i32 {
    // contain allocation bombs
    unsafe {
        let lim = libc::rlimit { rlim_cur: 8 << 30, rlim_max: 8 << 30 };
        libc::setrlimit(libc::RLIMIT_AS, &lim);
        let core = libc::rlimit { rlim_cur: 0, rlim_max: 0 };
        libc::setrlimit(libc::RLIMIT_CORE, &core);
    }
    std::panic::set_hook(Box::new(|_| {}));
    let actual = Profile::current();
    if actual != a.profile {
        eprintln!("ENGINE: binary built as {:?} but asked to run as {:?}", actual, a.profile);
        return 2;
    }
    galloc::enable();
    if prop.page_guard(a.tier, a.profile) || std::env::var("VERIF_PAGEGUARD").map_or(false, |v| v == "1") {
        galloc::set_page_mode(true);
    }

    // hang watchdog
    std::thread::spawn(|| {
        let mut last = PROGRESS.load(Ordering::Relaxed);
        let mut since = Instant::now();
        loop {
            std::thread::sleep(Duration::from_millis(500));
            let now = PROGRESS.load(Ordering::Relaxed);
            if now != last {
                last = now;
                since = Instant::now();
            } else if since.elapsed() > Duration::from_secs(HANG_SECS) {
                eprintln!("HANG: no case completed for {} s", HANG_SECS);
                std::process::abort();
            }
        }
    });

    let units: Vec<String> = {
        let f = File::open(&a.units_file).expect("units file");
        BufReader::new(f).lines().map(|l| l.unwrap()).filter(|l| !l.is_empty()).collect()
    };
    let journal = OpenOptions::new().create(true).write(true).truncate(true).open(&a.journal_file).expect("journal");
    let mut ctx = Ctx::new(a.tier, a.profile);
    ctx.out = Some(OpenOptions::new().create(true).append(true).open(&a.out_file).expect("out file"));
    ctx.only_case = a.only_case;
    ctx.start_case = a.start_case;
    if let Some(t) = &a.trace_file {
        ctx.trace = Some(OpenOptions::new().create(true).write(true).truncate(true).open(t).expect("trace file"));
        ctx.flush_on_violation = true;
    }
    let mut last_flush = Instant::now();
    for (pos, u) in units.iter().enumerate() {
        let rec = format!("UNIT {:<20}\n", pos);
        let _ = journal.write_at(rec.as_bytes(), 0);
        PROGRESS.fetch_add(1, Ordering::Relaxed);
        ctx.begin_unit(u);
        prop.run_unit(u, &mut ctx);
        ctx.done_pos = pos as i64;
        if last_flush.elapsed() > Duration::from_millis(300) {
            ctx.flush();
            last_flush = Instant::now();
        }
    }
    ctx.flush();
    let _ = journal.write_at(format!("DONE {:<20}\n", units.len()).as_bytes(), 0);
    0
}
