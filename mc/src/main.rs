//! toodee-mc: bounded-exhaustive exploration of toodee's real code (see /verif/DESIGN.md).
#![allow(dead_code)]

mod engine;
mod props;

use engine::ctx::{Profile, Tier};
use engine::worker::WorkerArgs;

#[global_allocator]
static GLOBAL: engine::galloc::Guard = engine::galloc::Guard;

fn arg_after(args: &[String], name: &str) -> Option<String> {
    args.iter().position(|a| a == name).and_then(|i| args.get(i + 1).cloned())
}

fn main() {
    let args: Vec<String> = std::env::args().collect();
    let props = props::all();
    let code = match args.get(1).map(|s| s.as_str()) {
        Some("check") => {
            let id = args.get(2).cloned().unwrap_or_default();
            let tier = arg_after(&args, "--tier")
                .or_else(|| args.get(3).filter(|s| !s.starts_with("--")).cloned())
                .or_else(|| std::env::var("VERIF_TIER").ok())
                .and_then(|s| Tier::parse(&s))
                .unwrap_or(Tier::Quick);
            match props.iter().find(|p| p.id() == id) {
                Some(p) => engine::driver::check(*p, tier),
                None => {
                    eprintln!("ENGINE-ERROR unknown property {}", id);
                    2
                }
            }
        }
        Some("worker") => {
            let id = arg_after(&args, "--prop").unwrap_or_default();
            let p = match props.iter().find(|p| p.id() == id) {
                Some(p) => *p,
                None => {
                    eprintln!("ENGINE: unknown property {}", id);
                    std::process::exit(2);
                }
            };
            let wa = WorkerArgs {
                tier: Tier::parse(&arg_after(&args, "--tier").unwrap_or_default()).unwrap_or(Tier::Quick),
                profile: Profile::parse(&arg_after(&args, "--profile").unwrap_or_default()).unwrap_or(Profile::Chk),
                units_file: arg_after(&args, "--units").unwrap_or_default(),
                out_file: arg_after(&args, "--out").unwrap_or_default(),
                journal_file: arg_after(&args, "--journal").unwrap_or_default(),
                trace_file: arg_after(&args, "--trace"),
                only_case: arg_after(&args, "--only-case").and_then(|s| s.parse().ok()),
                start_case: arg_after(&args, "--start-case").and_then(|s| s.parse().ok()).unwrap_or(0),
            };
            engine::worker::run(p, wa)
        }
        Some("replay") => engine::driver::replay(&props, &args.get(2).cloned().unwrap_or_default()),
        Some("profiles") => {
            // which build profiles does this property need in this tier?
            let id = args.get(2).cloned().unwrap_or_default();
            let tier = args.get(3).and_then(|s| Tier::parse(s)).unwrap_or(Tier::Quick);
            match props.iter().find(|p| p.id() == id) {
                Some(p) => {
                    for pr in p.profiles(tier) {
                        println!("{}", pr.name());
                    }
                    0
                }
                None => 2,
            }
        }
        Some("list") => {
            for p in &props {
                println!("{} {}", p.id(), p.level());
            }
            0
        }
        _ => {
            eprintln!("usage: toodee-mc check <ID> [quick|thorough] | replay <file> | list");
            2
        }
    };
    std::process::exit(code);
}
