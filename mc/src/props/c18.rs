//! C18 - serialisation round-trips every array (bounded-exhaustive over shapes, element types and
//! all 4 x 4 combinations of serde_json transports).

use serde::de::DeserializeOwned;
use serde::Serialize;
use serde_json::Value;
use toodee::{TooDee, TooDeeOps, TooDeeOpsMut};

use crate::engine::util::{shapes, windows};
use crate::engine::{guarded, Case, Ctx, Profile, Prop, Tier};

pub struct C18P;
pub static C18: C18P = C18P;

const SER: [&str; 4] = ["to_string", "to_vec", "to_writer", "to_value"];
const DE: [&str; 4] = ["from_str", "from_slice", "from_reader", "from_value"];

/// Serialises with transport `s`, returning JSON text bytes or a Value.
fn ser<S: Serialize>(x: &S, s: usize) -> Result<(Option<Vec<u8>>, Option<Value>), String> {
    match s {
        0 => serde_json::to_string(x).map(|t| (Some(t.into_bytes()), None)).map_err(|e| e.to_string()),
        1 => serde_json::to_vec(x).map(|t| (Some(t), None)).map_err(|e| e.to_string()),
        2 => {
            let mut buf: Vec<u8> = Vec::new();
            serde_json::to_writer(&mut buf, x).map(|_| (Some(buf), None)).map_err(|e| e.to_string())
        }
        _ => serde_json::to_value(x).map(|v| (None, Some(v))).map_err(|e| e.to_string()),
    }
}

fn de<T: DeserializeOwned>(bytes: &Option<Vec<u8>>, value: &Option<Value>, d: usize) -> Result<TooDee<T>, String> {
    // bring the document into the form the transport needs
    let text: Vec<u8> = match (bytes, value) {
        (Some(b), _) => b.clone(),
        (None, Some(v)) => serde_json::to_vec(v).map_err(|e| e.to_string())?,
        _ => unreachable!(),
    };
    match d {
        0 => serde_json::from_str(std::str::from_utf8(&text).map_err(|e| e.to_string())?).map_err(|e| e.to_string()),
        1 => serde_json::from_slice(&text).map_err(|e| e.to_string()),
        2 => serde_json::from_reader(std::io::Cursor::new(text)).map_err(|e| e.to_string()),
        _ => {
            let v: Value = match value {
                Some(v) => v.clone(),
                None => serde_json::from_slice(&text).map_err(|e| e.to_string())?,
            };
            serde_json::from_value(v).map_err(|e| e.to_string())
        }
    }
}

fn round_trips<S: Serialize, T: DeserializeOwned + PartialEq + std::fmt::Debug>(x: &S, expect: &TooDee<T>, cs: &mut Case, what: &str) {
    for s in 0..4 {
        for d in 0..4 {
            let r = guarded(|| ser(x, s).and_then(|(b, v)| de::<T>(&b, &v, d)));
            match r {
                Err(p) => cs.fail("roundtrip:panic", format!("{} via {} -> {} panicked: {}", what, SER[s], DE[d], p)),
                Ok(Err(e)) => cs.fail(&format!("roundtrip:error:{}", DE[d]), format!("{} via {} -> {} failed: {}", what, SER[s], DE[d], e)),
                Ok(Ok(t)) => {
                    if t.size() != expect.size() || t.data() != expect.data() || t != *expect {
                        cs.fail(&format!("roundtrip:differs:{}", DE[d]), format!("{} via {} -> {}: got size {:?} data {:?}, expected size {:?} data {:?}", what, SER[s], DE[d], t.size(), t.data(), expect.size(), expect.data()));
                    }
                }
            }
        }
    }
}

trait Sample: Sized {
    const NAME: &'static str;
    /// The i-th interesting value of this type (cycled).
    fn nth(i: usize) -> Self;
}
impl Sample for u32 {
    const NAME: &'static str = "u32";
    fn nth(i: usize) -> u32 {
        [0, 1, u32::MAX, 7, 1 << 31, 42][i % 6].wrapping_add((i / 6) as u32 * 1000)
    }
}
impl Sample for i64 {
    const NAME: &'static str = "i64";
    fn nth(i: usize) -> i64 {
        [0, -1, i64::MIN, i64::MAX, 1 << 53, -(1 << 53) - 1, 5][i % 7]
    }
}
impl Sample for String {
    const NAME: &'static str = "String";
    fn nth(i: usize) -> String {
        ["", "\"quoted\"", "back\\slash", "new\nline\ttab", "h\u{e9}llo \u{1F600} \u{0}", "data", "num_cols", "{\"num_rows\":1}", " "][i % 9].to_string()
    }
}
impl Sample for Option<u8> {
    const NAME: &'static str = "Option<u8>";
    fn nth(i: usize) -> Option<u8> {
        [None, Some(0), Some(255), Some(7)][i % 4]
    }
}
impl Sample for Vec<u8> {
    const NAME: &'static str = "Vec<u8>";
    fn nth(i: usize) -> Vec<u8> {
        [vec![], vec![0], vec![1, 2, 3], vec![255; 4]][i % 4].clone()
    }
}
impl Sample for [u8; 2] {
    const NAME: &'static str = "[u8;2]";
    fn nth(i: usize) -> [u8; 2] {
        [[0, 0], [1, 2], [255, 254]][i % 3]
    }
}
impl Sample for (i8, bool) {
    const NAME: &'static str = "(i8,bool)";
    fn nth(i: usize) -> (i8, bool) {
        [(0, false), (-128, true), (127, false)][i % 3]
    }
}

impl Sample for () {
    const NAME: &'static str = "()";
    fn nth(_: usize) {}
}
impl Sample for TooDee<u8> {
    const NAME: &'static str = "TooDee<u8>";
    fn nth(i: usize) -> TooDee<u8> {
        match i % 4 {
            0 => TooDee::default(),
            1 => TooDee::from_vec(1, 1, vec![7]),
            2 => TooDee::from_vec(2, 3, vec![1, 2, 3, 4, 5, 6]),
            _ => TooDee::from_vec(3, 1, vec![9, 8, 7]),
        }
    }
}

fn run_type<T: Sample + Serialize + DeserializeOwned + PartialEq + std::fmt::Debug + Clone>(c: usize, r: usize, ctx: &mut Ctx) {
    // several fillings per shape: rotate the sample values
    let n = c * r;
    let variants = if n == 0 { 1 } else { 3 };
    for rot in 0..variants {
        for spare in [false, true] {
            ctx.case(
                || format!("TooDee<{}> {}x{} filling #{} {}", T::NAME, c, r, rot, if spare { "spare capacity" } else { "" }),
                |cs| {
                    let mut v: Vec<T> = Vec::with_capacity(n + if spare { 9 } else { 0 });
                    for i in 0..n {
                        v.push(T::nth(i + rot * 2));
                    }
                    let t = TooDee::from_vec(c, r, v);
                    cs.nontrivial((T::NAME, c, r, rot, spare));
                    cs.outcome("owned");
                    round_trips::<TooDee<T>, T>(&t, &t, cs, "owned array");
                },
            );
        }
    }
}

fn run_small_u32(c: usize, r: usize, ctx: &mut Ctx) {
    // all assignments of {0, 1, u32::MAX} for up to 4 cells
    let n = c * r;
    if n == 0 || n > 4 {
        return;
    }
    let vals = [0u32, 1, u32::MAX];
    let total = 3usize.pow(n as u32);
    for code in 0..total {
        ctx.case(
            || format!("TooDee<u32> {}x{} assignment #{} of {{0,1,MAX}}^{}", c, r, code, n),
            |cs| {
                let mut k = code;
                let v: Vec<u32> = (0..n)
                    .map(|_| {
                        let x = vals[k % 3];
                        k /= 3;
                        x
                    })
                    .collect();
                let t = TooDee::from_vec(c, r, v);
                cs.nontrivial((c, r, code));
                cs.outcome("owned");
                round_trips::<TooDee<u32>, u32>(&t, &t, cs, "owned array");
            },
        );
    }
}

/// Arrays that were not built in one piece: grown row by row / column by column, shrunk, emptied and
/// regrown, reinterpreted with swap_dimensions, and arrays that survived a caught panic in a caller's
/// iterator or a leaked drain. Whatever array is left must round-trip.
fn run_histories(c: usize, r: usize, ctx: &mut Ctx) {
    use crate::engine::ledger::{self, FaultIter};
    let n = c * r;
    for h in 0..10usize {
        ctx.case(
            || format!("TooDee<u32> {}x{} built by history #{}", c, r, h),
            |cs| {
                let base: Vec<u32> = (0..n as u32).map(|i| i * 7 + 1).collect();
                let mut t: TooDee<u32> = TooDee::from_vec(c, r, base.clone());
                match h {
                    0 => {
                        t = TooDee::with_capacity(3);
                        for y in 0..r {
                            t.push_row(base[y * c..(y + 1) * c].to_vec());
                        }
                    }
                    1 => {
                        t = TooDee::default();
                        for x in 0..c {
                            t.push_col((0..r).map(|y| base[y * c + x]).collect::<Vec<_>>());
                        }
                    }
                    2 => {
                        let _ = t.pop_row().map(|d| d.count());
                        let h2 = t.num_rows();
                        t.push_col(vec![9u32; h2]);
                    }
                    3 => {
                        while t.pop_col().is_some() {}
                        t.push_row(vec![1u32, 2, 3]);
                        t.insert_col(1, vec![5u32]);
                    }
                    4 => t.swap_dimensions(),
                    5 => {
                        t.clear();
                        t.push_col(vec![4u32, 5]);
                    }
                    6 | 7 => {
                        // a caught panic in the caller's iterator (first next() of an insertion at the front / in the middle)
                        let items: Vec<u32> = vec![77; if h == 6 { c.max(1) } else { r.max(1) }];
                        ledger::arm(1);
                        let _ = guarded(|| {
                            if h == 6 {
                                t.insert_row(0, FaultIter::new(items))
                            } else {
                                t.insert_col(c.min(1), FaultIter::new(items))
                            }
                        });
                        ledger::disarm();
                    }
                    8 => {
                        if c > 0 {
                            std::mem::forget(t.remove_col(0));
                        }
                    }
                    _ => {
                        if r > 0 {
                            let mut d = t.remove_row(0);
                            let _ = d.next();
                            std::mem::forget(d);
                        }
                    }
                }
                cs.nontrivial((c, r, h));
                cs.outcome("history");
                let what = format!("array left by history #{} (size {:?})", h, t.size());
                round_trips::<TooDee<u32>, u32>(&t, &t, cs, &what);
            },
        );
    }
}

/// Owned arrays that survived a caught panic in caller code (or a fault-free operation) must round-trip too.
fn run_survivors(c: usize, r: usize, ctx: &mut Ctx) {
    use crate::engine::ledger::Tracked;
    super::c11::for_each_survivor(c, r, ctx, &mut |t: TooDee<Tracked>, what: &str, cs: &mut Case| {
        let (nc, nr) = t.size();
        if nc.checked_mul(nr).map_or(true, |a| a > 64) || t.data().len() > 64 {
            std::mem::forget(t);
            return;
        }
        round_trips::<TooDee<Tracked>, Tracked>(&t, &t, cs, &format!("the array {} (size {:?}, {} cells)", what, t.size(), t.data().len()));
        if nc * nr != t.data().len() {
            std::mem::forget(t);
        }
    });
}

fn run_views(pc: usize, pr: usize, ctx: &mut Ctx) {
    for (s, e) in windows(pc, pr) {
        ctx.case(
            || format!("view {:?}-{:?} of a {}x{} TooDee<u32>", s, e, pc, pr),
            |cs| {
                let mut p: TooDee<u32> = TooDee::from_vec(pc, pr, (0..(pc * pr) as u32).map(|i| i * 3 + 1).collect());
                cs.nontrivial((pc, pr, s, e));
                cs.outcome("view");
                // the expected array is read off the root by coordinates (TooDee::from(view) is C20's subject)
                let expect: TooDee<u32> = {
                    let (w, h) = (e.0 - s.0, e.1 - s.1);
                    if w == 0 || h == 0 {
                        TooDee::default()
                    } else {
                        let mut cells = Vec::with_capacity(w * h);
                        for y in 0..h {
                            for x in 0..w {
                                cells.push(p[(s.0 + x, s.1 + y)]);
                            }
                        }
                        TooDee::from_vec(w, h, cells)
                    }
                };
                {
                    let v = p.view(s, e);
                    round_trips::<_, u32>(&v, &expect, cs, "TooDeeView");
                }
                {
                    let vm = p.view_mut(s, e);
                    round_trips::<_, u32>(&vm, &expect, cs, "TooDeeViewMut");
                }
                // views built directly over a slice that is longer than cols*rows
                if s == (0, 0) && e == (pc, pr) {
                    let mut long: Vec<u32> = p.data().to_vec();
                    long.extend([91, 92, 93]);
                    let full: TooDee<u32> = p.clone();
                    {
                        let dv = toodee::TooDeeView::new(pc, pr, &long);
                        round_trips::<_, u32>(&dv, &full, cs, "TooDeeView::new over a longer slice");
                    }
                    {
                        let dm = toodee::TooDeeViewMut::new(pc, pr, &mut long);
                        round_trips::<_, u32>(&dm, &full, cs, "TooDeeViewMut::new over a longer slice");
                    }
                }
                // windows of a window, through every pairing of view / view_mut; the expected array is read off the
                // ROOT by coordinates (not through the views under test)
                let (wc, wr) = expect.size();
                if wc >= 2 && wr >= 2 {
                    let root_cells: Vec<u32> = p.data().to_vec();
                    let sub = |s2: (usize, usize), e2: (usize, usize)| -> TooDee<u32> {
                        let (w, h) = (e2.0 - s2.0, e2.1 - s2.1);
                        let mut cells = Vec::with_capacity(w * h);
                        for y in 0..h {
                            for x in 0..w {
                                cells.push(root_cells[(s.1 + s2.1 + y) * pc + s.0 + s2.0 + x]);
                            }
                        }
                        TooDee::from_vec(w, h, cells)
                    };
                    // a narrower child not starting on row 0 / a child spanning the parent's full width
                    for (s2, e2) in [((1, 0), (wc, wr - 1)), ((0, 1), (wc - 1, wr)), ((1, 1), (wc, wr)), ((0, 1), (wc, wr))] {
                        let exp2 = sub(s2, e2);
                        {
                            let outer = p.view(s, e);
                            let inner = outer.view(s2, e2);
                            round_trips::<_, u32>(&inner, &exp2, cs, "view of a view");
                        }
                        {
                            let outer = p.view_mut(s, e);
                            let inner = outer.view(s2, e2);
                            round_trips::<_, u32>(&inner, &exp2, cs, "view of a view_mut");
                        }
                        {
                            let mut outer = p.view_mut(s, e);
                            let inner = outer.view_mut(s2, e2);
                            round_trips::<_, u32>(&inner, &exp2, cs, "view_mut of a view_mut");
                        }
                    }
                }
            },
        );
    }
}

impl Prop for C18P {
    fn id(&self) -> &'static str {
        "C18"
    }
    fn level(&self) -> &'static str {
        "exploration"
    }
    fn profiles(&self, _tier: Tier) -> Vec<Profile> {
        vec![Profile::Chk]
    }
    fn units(&self, tier: Tier) -> Vec<String> {
        let n = tier.pick(5, 12);
        let mut v = Vec::new();
        let mut sh = shapes(n);
        sh.push((1, n + 3));
        sh.push((n + 3, 1));
        for (c, r) in sh {
            v.push(format!("owned {}x{}", c, r));
            if c <= n && r <= n {
                v.push(format!("views {}x{}", c, r));
            }
            if c > 0 && c <= 3 && r <= 3 {
                v.push(format!("survivors {}x{}", c, r));
            }
        }
        v
    }
    fn run_unit(&self, unit: &str, ctx: &mut Ctx) {
        let (what, dims) = unit.split_once(' ').unwrap();
        let (c, r) = dims.split_once('x').unwrap();
        let (c, r): (usize, usize) = (c.parse().unwrap(), r.parse().unwrap());
        if what == "views" {
            run_views(c, r, ctx);
        } else if what == "survivors" {
            run_survivors(c, r, ctx);
        } else {
            run_type::<u32>(c, r, ctx);
            run_small_u32(c, r, ctx);
            run_histories(c, r, ctx);
            run_type::<i64>(c, r, ctx);
            run_type::<String>(c, r, ctx);
            run_type::<Option<u8>>(c, r, ctx);
            run_type::<Vec<u8>>(c, r, ctx);
            run_type::<[u8; 2]>(c, r, ctx);
            run_type::<(i8, bool)>(c, r, ctx);
            run_type::<()>(c, r, ctx);
            run_type::<TooDee<u8>>(c, r, ctx);
        }
    }
    fn rule(&self) -> String {
        "every shape (0..=N)^2 incl. (0,0), 1xN, Nx1 (plus one long row and one long column); element types u32 (all assignments of {0,1,MAX} for up to 4 cells, rotating samples above), i64 (MIN/MAX/beyond 2^53), String (empty, quotes, backslash, control characters, non-ASCII, NUL, strings equal to field names), Option<u8>, Vec<u8>, [u8;2], (i8,bool); exact and spare capacity; arrays built by histories (grown by rows / columns, shrunk, emptied and regrown, swap_dimensions, and the array left by a caught panic in an insertion's iterator or by a leaked drain); \
         additionally every array of owning elements (shapes up to 3x3) that survives an operation in which the k-th call into caller code (iterator, Clone, Drop, comparator, key function) panicked and was caught - every operation instance and every k; \
         ALL 4 x 4 combinations of {to_string,to_vec,to_writer,to_value} with {from_str,from_slice,from_reader,from_value}: the result must be Ok and equal to the original (dimensions, cells, ==). \
         Views: every window of every parent up to NxN through TooDeeView and TooDeeViewMut (and a nested view): the deserialised array must equal TooDee::from(view). \
         A case is (element type, shape, filling) or (parent, window), each covering the 16 transport pairs; distinct by the tuple; all are non-trivial."
            .into()
    }
    fn bound(&self, tier: Tier) -> String {
        format!("N = {}", tier.pick(5, 12))
    }
    fn assumptions(&self) -> Vec<String> {
        vec!["serde_json is the only format exercised; floating-point elements are not included (JSON cannot represent NaN/inf, so no round-trip is promised for them)".into()]
    }
}
