//! Mutating operations of the traits TooDeeOpsMut / CopyOps / SortOps / TranslateOps as data,
//! so that the same call can be made on any receiver (used by C04, C14-C17).

use toodee::{Coordinate, CopyOps, SortOps, TooDee, TooDeeOps, TooDeeOpsMut, TranslateOps};

use super::recv::Kt;

#[derive(Clone, Debug, Hash, PartialEq, Eq)]
pub enum Op {
    Write(usize, usize),
    WriteRow(usize, usize),
    Fill,
    Swap(Coordinate, Coordinate),
    SwapRows(usize, usize),
    SwapCols(usize, usize),
    RowPairWrite(usize, usize),
    RowsMutWrite(u8),
    ColMutWrite(usize, u8),
    CellsMutWrite(u8),
    /// writes through `(&mut receiver).into_iter()`
    IntoIterMutWrite(u8),
    /// source slice length
    CopyFromSlice(usize),
    CloneFromSlice(usize),
    /// source kind (0 owned, 1 strided view, 2 view_mut, 3 view built over a longer slice), source size
    CopyFromToodee(u8, usize, usize),
    CloneFromToodee(u8, usize, usize),
    CopyWithin(Coordinate, Coordinate, Coordinate),
    /// variant 0..=10, row/col index
    Sort(u8, usize),
    Translate(usize, usize),
    FlipRows,
    FlipCols,
}

pub const SORT_NAMES: [&str; 11] = [
    "sort_row_ord",
    "sort_unstable_row_ord",
    "sort_by_row",
    "sort_unstable_by_row",
    "sort_by_row_key",
    "sort_unstable_by_row_key",
    "sort_col_ord",
    "sort_by_col",
    "sort_unstable_by_col",
    "sort_by_col_key",
    "sort_unstable_by_col_key",
];
pub fn sort_is_row(v: u8) -> bool {
    v <= 5
}
pub fn sort_is_stable(v: u8) -> bool {
    matches!(v, 0 | 2 | 4 | 6 | 7 | 9)
}

fn wval(n: &mut u16) -> Kt {
    *n += 1;
    Kt::new(250, 3000 + *n)
}

pub fn src_slice(n: usize) -> Vec<Kt> {
    (0..n).map(|i| Kt::new(100 + (i % 50) as u8, 5000 + i as u16)).collect()
}

/// Source array for copy_from_toodee: `kind` 0 = owned c x r, 1 = interior window of a larger
/// owned array (stride > width), 2 = the same through a TooDeeViewMut.
pub fn with_src<R>(kind: u8, c: usize, r: usize, f: impl FnOnce(&dyn SrcDyn) -> R) -> R {
    match kind {
        0 => {
            let t = TooDee::from_vec(c, r, src_slice(c * r));
            f(&SrcOwned(t))
        }
        3 => {
            // a TooDeeView built directly over a slice that is LONGER than c*r (three surplus cells)
            let mut long = src_slice(c * r);
            long.extend([Kt::new(1, 61001), Kt::new(2, 61002), Kt::new(3, 61003)]);
            f(&SrcLong(long, c, r))
        }
        _ => {
            // window (1,1)-(1+c,1+r) of a (c+2) x (r+2) parent whose window cells carry src_slice values
            let (pc, pr) = (c + 2, r + 2);
            let mut p: TooDee<Kt> = TooDee::init(pc, pr, Kt::new(0, 60000));
            let s = src_slice(c * r);
            for y in 0..r {
                for x in 0..c {
                    p[(1 + x, 1 + y)] = s[y * c + x];
                }
            }
            f(&SrcWin(p, c, r, kind))
        }
    }
}
pub struct SrcLong(pub Vec<Kt>, pub usize, pub usize);
macro_rules! src_impl_long {
    ($name:ident, $d:ty) => {
        fn $name(&self, d: &mut $d, clone: bool) {
            let v = toodee::TooDeeView::new(self.1, self.2, &self.0);
            if clone {
                d.clone_from_toodee(&v)
            } else {
                d.copy_from_toodee(&v)
            }
        }
    };
}
impl SrcDyn for SrcLong {
    src_impl_long!(copy_into_owned, TooDee<Kt>);
    src_impl_long!(copy_into_view, toodee::TooDeeViewMut<'_, Kt>);
    src_impl_long!(copy_into_fo, super::recv::ForeignOwned<Kt>);
    src_impl_long!(copy_into_fw, super::recv::ForeignWindow<'_, Kt>);
}
pub struct SrcOwned(pub TooDee<Kt>);
pub struct SrcWin(pub TooDee<Kt>, pub usize, pub usize, pub u8);
/// Object-safe shim: apply copy_from/clone_from with this source to a destination.
pub trait SrcDyn {
    fn copy_into_owned(&self, d: &mut TooDee<Kt>, clone: bool);
    fn copy_into_view(&self, d: &mut toodee::TooDeeViewMut<'_, Kt>, clone: bool);
    fn copy_into_fo(&self, d: &mut super::recv::ForeignOwned<Kt>, clone: bool);
    fn copy_into_fw(&self, d: &mut super::recv::ForeignWindow<'_, Kt>, clone: bool);
}
macro_rules! src_impl {
    ($name:ident, $d:ty) => {
        fn $name(&self, d: &mut $d, clone: bool) {
            let p = &self.0;
            if self.3 == 1 {
                let v = p.view((1, 1), (1 + self.1, 1 + self.2));
                if clone {
                    d.clone_from_toodee(&v)
                } else {
                    d.copy_from_toodee(&v)
                }
            } else {
                // a TooDeeViewMut as the source: needs a mutable parent
                let mut q = p.clone();
                let v = q.view_mut((1, 1), (1 + self.1, 1 + self.2));
                if clone {
                    d.clone_from_toodee(&v)
                } else {
                    d.copy_from_toodee(&v)
                }
            }
        }
    };
}
macro_rules! src_impl_owned {
    ($name:ident, $d:ty) => {
        fn $name(&self, d: &mut $d, clone: bool) {
            if clone {
                d.clone_from_toodee(&self.0)
            } else {
                d.copy_from_toodee(&self.0)
            }
        }
    };
}
impl SrcDyn for SrcOwned {
    src_impl_owned!(copy_into_owned, TooDee<Kt>);
    src_impl_owned!(copy_into_view, toodee::TooDeeViewMut<'_, Kt>);
    src_impl_owned!(copy_into_fo, super::recv::ForeignOwned<Kt>);
    src_impl_owned!(copy_into_fw, super::recv::ForeignWindow<'_, Kt>);
}
impl SrcDyn for SrcWin {
    src_impl!(copy_into_owned, TooDee<Kt>);
    src_impl!(copy_into_view, toodee::TooDeeViewMut<'_, Kt>);
    src_impl!(copy_into_fo, super::recv::ForeignOwned<Kt>);
    src_impl!(copy_into_fw, super::recv::ForeignWindow<'_, Kt>);
}

/// Destination-side dispatch for the copy_from_toodee family.
pub trait Dest: TooDeeOpsMut<Kt> + CopyOps<Kt> {
    fn copy_from_src(&mut self, src: &dyn SrcDyn, clone: bool);
    /// Writes through the `IntoIterator for &mut Self` form (third-party types have none: cells_mut()).
    fn into_iter_mut_write(&mut self, mode: u8, n: &mut u16) {
        paint_cells(self.cells_mut(), mode, n)
    }
}
fn paint_cells<'a, I: DoubleEndedIterator<Item = &'a mut Kt>>(mut it: I, mode: u8, n: &mut u16) {
    match mode {
        0 => {
            for e in it {
                *e = wval(n);
            }
        }
        1 => {
            for e in it.rev() {
                *e = wval(n);
            }
        }
        _ => {
            if let Some(e) = it.nth(1) {
                *e = wval(n);
            }
            for e in it {
                *e = wval(n);
            }
        }
    }
}
impl Dest for TooDee<Kt> {
    fn copy_from_src(&mut self, src: &dyn SrcDyn, clone: bool) {
        src.copy_into_owned(self, clone)
    }
    fn into_iter_mut_write(&mut self, mode: u8, n: &mut u16) {
        paint_cells((&mut *self).into_iter(), mode, n)
    }
}
impl Dest for toodee::TooDeeViewMut<'_, Kt> {
    fn copy_from_src(&mut self, src: &dyn SrcDyn, clone: bool) {
        src.copy_into_view(self, clone)
    }
    fn into_iter_mut_write(&mut self, mode: u8, n: &mut u16) {
        // `IntoIterator for &'a mut TooDeeViewMut<'a, T>` borrows the view for its whole lifetime: use a
        // full-size view of this view, which lives (and is borrowed) until the end of this call
        let size = self.size();
        let mut whole = self.view_mut((0, 0), size);
        paint_cells((&mut whole).into_iter(), mode, n)
    }
}
impl Dest for super::recv::ForeignOwned<Kt> {
    fn copy_from_src(&mut self, src: &dyn SrcDyn, clone: bool) {
        src.copy_into_fo(self, clone)
    }
}
impl Dest for super::recv::ForeignWindow<'_, Kt> {
    fn copy_from_src(&mut self, src: &dyn SrcDyn, clone: bool) {
        src.copy_into_fw(self, clone)
    }
}

/// Performs `op` on the receiver. May panic (invalid arguments).
pub fn apply_op<R: Dest>(x: &mut R, op: &Op) {
    let mut n: u16 = 0;
    match op {
        Op::Write(c, r) => x[(*c, *r)] = wval(&mut n),
        Op::WriteRow(c, r) => x[*r][*c] = wval(&mut n),
        Op::Fill => x.fill(Kt::new(201, 9999)),
        Op::Swap(a, b) => x.swap(*a, *b),
        Op::SwapRows(a, b) => x.swap_rows(*a, *b),
        Op::SwapCols(a, b) => x.swap_cols(*a, *b),
        Op::RowPairWrite(a, b) => {
            let (ra, rb) = x.row_pair_mut(*a, *b);
            for e in ra.iter_mut() {
                *e = wval(&mut n);
            }
            for e in rb.iter_mut() {
                *e = wval(&mut n);
            }
        }
        Op::RowsMutWrite(mode) => {
            let mut it = x.rows_mut();
            let mut paint = |row: &mut [Kt], n: &mut u16| {
                for e in row.iter_mut() {
                    *e = wval(n);
                }
            };
            match mode {
                0 => {
                    for row in it {
                        paint(row, &mut n);
                    }
                }
                1 => {
                    for row in it.rev() {
                        paint(row, &mut n);
                    }
                }
                2 => loop {
                    match it.next() {
                        Some(row) => paint(row, &mut n),
                        None => break,
                    }
                    match it.next_back() {
                        Some(row) => paint(row, &mut n),
                        None => break,
                    }
                },
                3 => {
                    // skip one, paint the rest
                    if let Some(row) = it.nth(1) {
                        paint(row, &mut n);
                    }
                    for row in it {
                        paint(row, &mut n);
                    }
                }
                4 => {
                    if let Some(row) = it.nth_back(1) {
                        paint(row, &mut n);
                    }
                    while let Some(row) = it.next_back() {
                        paint(row, &mut n);
                    }
                }
                // internal iteration (fold / rfold paths)
                5 => it.for_each(|row| paint(row, &mut n)),
                6 => it.rev().for_each(|row| paint(row, &mut n)),
                7 => {
                    if let Some(row) = it.last() {
                        paint(row, &mut n);
                    }
                }
                8 => it.skip(1).step_by(2).for_each(|row| paint(row, &mut n)),
                _ => it.rev().skip(1).for_each(|row| paint(row, &mut n)),
            }
        }
        Op::ColMutWrite(c, mode) => {
            let mut it = x.col_mut(*c);
            match mode {
                0 => {
                    for e in it {
                        *e = wval(&mut n);
                    }
                }
                1 => {
                    for e in it.rev() {
                        *e = wval(&mut n);
                    }
                }
                2 => {
                    if let Some(e) = it.nth(1) {
                        *e = wval(&mut n);
                    }
                    for e in it {
                        *e = wval(&mut n);
                    }
                }
                3 => {
                    if let Some(e) = it.nth_back(1) {
                        *e = wval(&mut n);
                    }
                    while let Some(e) = it.next_back() {
                        *e = wval(&mut n);
                    }
                }
                4 => {
                    // IndexMut on the column
                    let l = it.len();
                    for i in 0..l {
                        it[i] = wval(&mut n);
                    }
                }
                5 => it.for_each(|e| *e = wval(&mut n)),
                6 => it.rev().for_each(|e| *e = wval(&mut n)),
                7 => {
                    if let Some(e) = it.last() {
                        *e = wval(&mut n);
                    }
                }
                8 => it.skip(1).step_by(2).for_each(|e| *e = wval(&mut n)),
                _ => it.rev().skip(1).for_each(|e| *e = wval(&mut n)),
            }
        }
        Op::IntoIterMutWrite(mode) => x.into_iter_mut_write(*mode, &mut n),
        Op::CellsMutWrite(mode) => {
            let mut it = x.cells_mut();
            match mode {
                0 => {
                    for e in it {
                        *e = wval(&mut n);
                    }
                }
                1 => {
                    for e in it.rev() {
                        *e = wval(&mut n);
                    }
                }
                2 => {
                    while let Some(e) = it.nth(2) {
                        *e = wval(&mut n);
                    }
                }
                3 => {
                    while let Some(e) = it.nth_back(2) {
                        *e = wval(&mut n);
                    }
                }
                4 => loop {
                    match it.next() {
                        Some(e) => *e = wval(&mut n),
                        None => break,
                    }
                    match it.nth_back(1) {
                        Some(e) => *e = wval(&mut n),
                        None => break,
                    }
                },
                5 => it.for_each(|e| *e = wval(&mut n)),
                6 => {
                    // one step from the front, then internal iteration from the back
                    if let Some(e) = it.next() {
                        *e = wval(&mut n);
                    }
                    it.rev().for_each(|e| *e = wval(&mut n))
                }
                7 => {
                    if let Some(e) = it.last() {
                        *e = wval(&mut n);
                    }
                }
                8 => it.skip(1).step_by(2).for_each(|e| *e = wval(&mut n)),
                _ => it.rev().skip(1).for_each(|e| *e = wval(&mut n)),
            }
        }
        Op::CopyFromSlice(len) => x.copy_from_slice(&src_slice(*len)),
        Op::CloneFromSlice(len) => x.clone_from_slice(&src_slice(*len)),
        Op::CopyFromToodee(k, c, r) => with_src(*k, *c, *r, |s| x.copy_from_src(s, false)),
        Op::CloneFromToodee(k, c, r) => with_src(*k, *c, *r, |s| x.copy_from_src(s, true)),
        Op::CopyWithin(a, b, d) => x.copy_within((*a, *b), *d),
        Op::Sort(v, i) => {
            let i = *i;
            match v {
                0 => x.sort_row_ord::<()>(i),
                1 => x.sort_unstable_row_ord::<()>(i),
                2 => x.sort_by_row(i, |a, b| a.key.cmp(&b.key)),
                3 => x.sort_unstable_by_row(i, |a, b| a.key.cmp(&b.key)),
                4 => x.sort_by_row_key(i, |a| a.key),
                5 => x.sort_unstable_by_row_key(i, |a| a.key),
                6 => x.sort_col_ord::<()>(i),
                7 => x.sort_by_col(i, |a, b| a.key.cmp(&b.key)),
                8 => x.sort_unstable_by_col(i, |a, b| a.key.cmp(&b.key)),
                9 => x.sort_by_col_key(i, |a| a.key),
                _ => x.sort_unstable_by_col_key(i, |a| a.key),
            }
        }
        Op::Translate(mc, mr) => x.translate_with_wrap((*mc, *mr)),
        Op::FlipRows => x.flip_rows(),
        Op::FlipCols => x.flip_cols(),
    }
}

/// Every operation with every valid argument for a receiver of size (c, r), plus a few invalid
/// argument tuples per operation. `cw_max` bounds the copy_within rectangle extent.
pub fn ops_for(c: usize, r: usize, cw_max: usize) -> Vec<Op> {
    let mut v = Vec::new();
    for y in 0..r {
        for x in 0..c {
            v.push(Op::Write(x, y));
            v.push(Op::WriteRow(x, y));
        }
    }
    v.push(Op::Write(c, 0));
    v.push(Op::Write(0, r));
    v.push(Op::WriteRow(c, 0));
    v.push(Op::WriteRow(0, r));
    v.push(Op::Fill);
    for y1 in 0..r {
        for x1 in 0..c {
            for y2 in 0..r {
                for x2 in 0..c {
                    v.push(Op::Swap((x1, y1), (x2, y2)));
                }
            }
        }
    }
    v.push(Op::Swap((c, 0), (0, 0)));
    v.push(Op::Swap((0, 0), (0, r)));
    for a in 0..=r {
        for b in 0..=r {
            v.push(Op::SwapRows(a, b));
            v.push(Op::RowPairWrite(a, b));
        }
    }
    for a in 0..=c {
        for b in 0..=c {
            v.push(Op::SwapCols(a, b));
        }
    }
    for m in 0..3 {
        v.push(Op::IntoIterMutWrite(m));
    }
    for m in 0..10 {
        v.push(Op::RowsMutWrite(m));
        v.push(Op::CellsMutWrite(m));
        for x in 0..=c {
            v.push(Op::ColMutWrite(x, m));
        }
    }
    for len in [c * r, c * r + 1, (c * r).saturating_sub(1), 0] {
        v.push(Op::CopyFromSlice(len));
        v.push(Op::CloneFromSlice(len));
    }
    for k in 0..4u8 {
        v.push(Op::CopyFromToodee(k, c, r));
        v.push(Op::CloneFromToodee(k, c, r));
        v.push(Op::CopyFromToodee(k, r, c));
        v.push(Op::CloneFromToodee(k, c + 1, r));
    }
    // copy_within: all rectangles up to cw_max x cw_max and all destinations that fit, plus misfits
    for x1 in 0..=c {
        for x2 in x1..=c.min(x1 + cw_max) {
            for y1 in 0..=r {
                for y2 in y1..=r.min(y1 + cw_max) {
                    for dx in 0..=c {
                        for dy in 0..=r {
                            if dx + (x2 - x1) <= c && dy + (y2 - y1) <= r {
                                v.push(Op::CopyWithin((x1, y1), (x2, y2), (dx, dy)));
                            }
                        }
                    }
                }
            }
        }
    }
    v.push(Op::CopyWithin((0, 0), (c, r), (1, 0)));
    v.push(Op::CopyWithin((0, 0), (c + 1, r), (0, 0)));
    v.push(Op::CopyWithin((1, 0), (0, r), (0, 0)));
    for var in 0..=10u8 {
        let dim = if sort_is_row(var) { r } else { c };
        for i in 0..=dim {
            v.push(Op::Sort(var, i));
        }
    }
    for mc in 0..=c + 1 {
        for mr in 0..=r + 1 {
            v.push(Op::Translate(mc, mr));
        }
    }
    v.push(Op::FlipRows);
    v.push(Op::FlipCols);
    v
}


/// The operations of `apply_op` that make sense for zero-sized elements, on a receiver of `()`.
pub fn apply_op_unit<R: TooDeeOpsMut<()> + CopyOps<()>>(x: &mut R, op: &Op) {
    use std::cmp::Ordering;
    match op {
        Op::Write(c, r) => x[(*c, *r)] = (),
        Op::WriteRow(c, r) => x[*r][*c] = (),
        Op::Fill => x.fill(()),
        Op::Swap(a, b) => x.swap(*a, *b),
        Op::SwapRows(a, b) => x.swap_rows(*a, *b),
        Op::SwapCols(a, b) => x.swap_cols(*a, *b),
        Op::RowPairWrite(a, b) => {
            let _ = x.row_pair_mut(*a, *b);
        }
        Op::CopyFromSlice(len) => x.copy_from_slice(&vec![(); *len]),
        Op::CloneFromSlice(len) => x.clone_from_slice(&vec![(); *len]),
        Op::CopyFromToodee(k, c, r) | Op::CloneFromToodee(k, c, r) => {
            // the same source kinds as `with_src`: an owned c x r array, or the window
            // (1,1)-(1+c,1+r) of a (c+2) x (r+2) array
            let clone = matches!(op, Op::CloneFromToodee(..));
            if *k == 0 {
                let src = TooDee::<()>::init(*c, *r, ());
                if clone {
                    x.clone_from_toodee(&src)
                } else {
                    x.copy_from_toodee(&src)
                }
            } else if *k == 3 {
                let long = vec![(); *c * *r + 3];
                let v = toodee::TooDeeView::new(*c, *r, &long);
                if clone {
                    x.clone_from_toodee(&v)
                } else {
                    x.copy_from_toodee(&v)
                }
            } else {
                let p = TooDee::<()>::init(*c + 2, *r + 2, ());
                let v = p.view((1, 1), (1 + *c, 1 + *r));
                if clone {
                    x.clone_from_toodee(&v)
                } else {
                    x.copy_from_toodee(&v)
                }
            }
        }
        Op::CopyWithin(a, b, d) => x.copy_within((*a, *b), *d),
        Op::Sort(v, i) => {
            let i = *i;
            match v {
                0 => x.sort_row_ord::<()>(i),
                1 => x.sort_unstable_row_ord::<()>(i),
                2 => x.sort_by_row(i, |_, _| Ordering::Equal),
                3 => x.sort_unstable_by_row(i, |_, _| Ordering::Equal),
                4 => x.sort_by_row_key(i, |_| 0u8),
                5 => x.sort_unstable_by_row_key(i, |_| 0u8),
                6 => x.sort_col_ord::<()>(i),
                7 => x.sort_by_col(i, |_, _| Ordering::Equal),
                8 => x.sort_unstable_by_col(i, |_, _| Ordering::Equal),
                9 => x.sort_by_col_key(i, |_| 0u8),
                _ => x.sort_unstable_by_col_key(i, |_| 0u8),
            }
        }
        Op::Translate(mc, mr) => x.translate_with_wrap((*mc, *mr)),
        Op::FlipRows => x.flip_rows(),
        Op::FlipCols => x.flip_cols(),
        Op::RowsMutWrite(_) | Op::ColMutWrite(..) | Op::CellsMutWrite(_) | Op::IntoIterMutWrite(_) => {}
    }
}

/// Zero-sized elements carry no data, but an operation must still accept and reject exactly the
/// same arguments as for any other element type (a "nothing to move" shortcut must not skip the
/// argument checks). Runs each operation on a c x r array of `()` (owned, and as a window of a
/// larger array of `()`) and on a c x r array of `Kt`, and compares whether the call panicked.
pub fn zst_panic_differential(c: usize, r: usize, ops: &[Op], ctx: &mut crate::engine::Ctx) {
    use crate::engine::guarded;
    for op in ops {
        if matches!(op, Op::RowsMutWrite(_) | Op::ColMutWrite(..) | Op::CellsMutWrite(_) | Op::IntoIterMutWrite(_)) {
            continue;
        }
        ctx.case(
            || format!("TooDee<()> {}x{} vs TooDee<Kt>: {:?}", c, r, op),
            |cs| {
                let mut k: TooDee<Kt> = super::recv::parent_kt(c, r);
                let kt_panics = guarded(|| apply_op(&mut k, op)).is_err();
                let mut z: TooDee<()> = TooDee::init(c, r, ());
                let z_panics = guarded(|| apply_op_unit(&mut z, op)).is_err();
                let mut zp: TooDee<()> = TooDee::init(c + 2, r + 2, ());
                let zw_panics = guarded(|| {
                    let mut w = zp.view_mut((1, 1), (1 + c, 1 + r));
                    apply_op_unit(&mut w, op)
                })
                .is_err();
                cs.outcome(if kt_panics { "rejected" } else { "accepted" });
                cs.nontrivial((c, r, op));
                if z_panics != kt_panics {
                    cs.fail("zst:panic-differs", format!("on a {}x{} array of () the call {} but on an array of ordinary elements it {}", c, r, if z_panics { "panicked" } else { "returned" }, if kt_panics { "panicked" } else { "returned" }));
                }
                if zw_panics != kt_panics {
                    cs.fail("zst:panic-differs", format!("on a {}x{} window of () the call {} but on an array of ordinary elements it {}", c, r, if zw_panics { "panicked" } else { "returned" }, if kt_panics { "panicked" } else { "returned" }));
                }
                if z.size() != (c, r) || z.data().len() != c * r {
                    cs.fail("zst:shape-changed", format!("the array of () now has size {:?} and {} cells", z.size(), z.data().len()));
                }
            },
        );
    }
}
