pub mod array_bfs;
pub mod c01;
pub mod c05;
pub mod c13;
pub mod recv;
pub mod elem;

use crate::engine::Prop;

pub fn all() -> Vec<&'static dyn Prop> {
    vec![&c01::C01, &c05::C05, &c13::C13]
}
