pub mod array_bfs;
pub mod c01;
pub mod c02;
pub mod c03;
pub mod c04;
pub mod c05;
pub mod c06;
pub mod c07;
pub mod c08;
pub mod c09;
pub mod c10;
pub mod c11;
pub mod c12;
pub mod c13;
pub mod c14;
pub mod c15;
pub mod c18;
pub mod c19;
pub mod c20;
pub mod ops;
pub mod recv;
pub mod seqx;
pub mod sorts;
pub mod views;
pub mod elem;
pub mod exam;
pub mod hugezst;

use crate::engine::Prop;

pub fn all() -> Vec<&'static dyn Prop> {
    vec![&c01::C01, &c02::C02, &c03::C03, &c04::C04, &c05::C05, &c06::C06, &c07::C07, &c08::C08, &c09::C09, &c10::C10, &c11::C11, &c12::C12, &c13::C13, &c14::C14, &c15::C15, &sorts::C16, &sorts::C17, &c18::C18, &c19::C19, &c20::C20]
}
