//! C01 - dimensions always agree with contents (explicit-state search, DESIGN.md 4/C01).

use super::array_bfs::{bounds_for, init_units, run_unit_generic};
use crate::engine::{Ctx, Kind, Profile, Prop, Tier};

pub struct C01P;
pub static C01: C01P = C01P;

const QUICK: (usize, usize) = (6, 3);
const THOROUGH: (usize, usize) = (8, 4);

impl Prop for C01P {
    fn id(&self) -> &'static str {
        "C01"
    }
    fn level(&self) -> &'static str {
        "model_checking"
    }
    fn kind(&self) -> Kind {
        Kind::Bfs
    }
    fn profiles(&self, tier: Tier) -> Vec<Profile> {
        tier.pick(vec![Profile::Chk, Profile::Wrap], vec![Profile::Chk, Profile::Wrap, Profile::Rel])
    }
    fn units(&self, tier: Tier) -> Vec<String> {
        init_units('U', &bounds_for(tier, QUICK, THOROUGH))
    }
    fn run_unit(&self, unit: &str, ctx: &mut Ctx) {
        let b = bounds_for(ctx.tier, QUICK, THOROUGH);
        run_unit_generic(unit, ctx, &b, false);
    }
    fn page_guard(&self, tier: Tier, profile: Profile) -> bool {
        let _ = (tier, profile);
        profile == Profile::Wrap
    }
    fn rule(&self) -> String {
        "breadth-first search to fixpoint over canonical states (dims + rank-compressed cell labels) of a real TooDee<u32>; \
         initial states = every constructor call (default, with_capacity, new, init, from_vec, from_box; all dimension pairs and buffer lengths in the bound); \
         in every state every action of the alphabet (insert/push/remove/pop of rows and columns with every index 0..=dim+1, every supplied length 0..=dim+1 and every front/back drain consumption split, \
         clear, swap_dimensions, reserve/reserve_exact/shrink_to_fit, fill, clone_from_slice, clone_from_toodee, Clone::clone_from (same, transposed, smaller, larger, empty sources), swap, swap_rows, swap_cols, flips, translate, sorts, copy_within, Index/data_mut writes with in-range and out-of-range arguments, insertions from iterators that lie about their length (rejected mid-way; the state is read back)) \
         is executed twice on a freshly materialised array (exact capacity, spare capacity); after each the shape invariant and cell-by-cell equality with a rows-of-cells model are checked. \
         A case is one (state, action, capacity variant); it is non-trivial when the call was accepted (did not panic); distinct by (state key, action, variant). \
         Afterwards each state's shortest history is replayed on one live object and must reach the recorded key (traces_validated_against_impl)."
            .into()
    }
    fn bound(&self, tier: Tier) -> String {
        let (cells, dim) = tier.pick(QUICK, THOROUGH);
        format!("all states with <= {} cells and dims <= {}, to fixpoint; successors beyond the cap are checked but not expanded", cells, dim)
    }
    fn assumptions(&self) -> Vec<String> {
        vec![
            "capacity is abstracted from the state key: toodee never branches on capacity, Vec::reserve either moves the buffer or not, and both outcomes are forced at every transition (exact and spare materialisation)".into(),
            "rank compression of labels is sound because every operation is parametric in T or a comparison sort (commutes with order isomorphisms)".into(),
            "64-bit usize only".into(),
        ]
    }
}
