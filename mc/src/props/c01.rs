//! C01 - dimensions always agree with contents (explicit-state search, DESIGN.md 4/C01).

use toodee::{TooDee, TooDeeOps};

use super::array_bfs::{apply, bounds_for, check_state, init_units, materialize, run_unit_generic, Act};
use crate::engine::util::Model;
use crate::engine::{guarded, Ctx, Kind, Profile, Prop, Tier};

pub struct C01P;
pub static C01: C01P = C01P;

const QUICK: (usize, usize) = (6, 3);
const THOROUGH: (usize, usize) = (8, 4);

impl Prop for C01P {
    fn id(&self) -> &'static str {
        "C01"
    }
    fn level(&self) -> &'static str {
        "model_checking"
    }
    fn kind(&self) -> Kind {
        Kind::Bfs
    }
    fn profiles(&self, tier: Tier) -> Vec<Profile> {
        tier.pick(vec![Profile::Chk, Profile::Wrap], vec![Profile::Chk, Profile::Wrap, Profile::Rel])
    }
    fn units(&self, tier: Tier) -> Vec<String> {
        let mut v = init_units('U', &bounds_for(tier, QUICK, THOROUGH));
        // states outside the search's cap that exercise paths it cannot reach (they report no successors)
        for (c, r) in super::hugezst::shapes() {
            v.push(format!("extra:hugezst:{}x{}", c, r));
        }
        for k in [21usize, 33, 40, 48] {
            v.push(format!("extra:wide:{}", k));
        }
        v.extend(super::array_bfs::chain_units('U', true, tier));
        for (c, r) in super::hugezst::mid_shapes(tier) {
            v.push(format!("extra:mid:{}x{}", c, r));
        }
        for (c, r) in crate::engine::util::shapes(3) {
            v.push(format!("extra:fromview:{}x{}", c, r));
        }
        v
    }
    fn run_unit(&self, unit: &str, ctx: &mut Ctx) {
        if let Some(shape) = unit.strip_prefix("extra:hugezst:") {
            let (c, r) = super::hugezst::parse_shape(shape);
            run_huge_zst(c, r, ctx);
            return;
        }
        if unit.starts_with("extra:chain:") {
            super::array_bfs::run_chain_unit(unit, ctx);
            return;
        }
        if let Some(shape) = unit.strip_prefix("extra:fromview:") {
            let (c, r) = super::hugezst::parse_shape(shape);
            run_from_view(c, r, ctx);
            return;
        }
        if let Some(shape) = unit.strip_prefix("extra:mid:") {
            let (c, r) = super::hugezst::parse_shape(shape);
            run_mid(c, r, ctx);
            return;
        }
        if let Some(k) = unit.strip_prefix("extra:wide:") {
            run_wide(k.parse().unwrap(), ctx);
            return;
        }
        let b = bounds_for(ctx.tier, QUICK, THOROUGH);
        run_unit_generic(unit, ctx, &b, false);
    }
    fn page_guard(&self, tier: Tier, profile: Profile) -> bool {
        let _ = (tier, profile);
        profile == Profile::Wrap
    }
    fn rule(&self) -> String {
        "breadth-first search to fixpoint over canonical states (dims + rank-compressed cell labels) of a real TooDee<u32>; \
         initial states = every constructor call (default, with_capacity, new, init, from_vec, from_box; all dimension pairs and buffer lengths in the bound); \
         in every state every action of the alphabet (insert/push/remove/pop of rows and columns with every index 0..=dim+1, every supplied length 0..=dim+1 and every front/back drain consumption split, \
         clear, swap_dimensions, reserve/reserve_exact/shrink_to_fit, fill, clone_from_slice, clone_from_toodee, Clone::clone_from (same, transposed, smaller, larger, empty sources), swap, swap_rows, swap_cols, flips, translate, sorts, copy_within, Index/data_mut writes with in-range and out-of-range arguments, insertions from iterators that lie about their length (rejected mid-way; the state is read back)) \
         is executed twice on a freshly materialised array (exact capacity, spare capacity); after each the shape invariant and cell-by-cell equality with a rows-of-cells model are checked. \
         A case is one (state, action, capacity variant); it is non-trivial when the call was accepted (did not panic); distinct by (state key, action, variant). \
         Outside the cap: (i) arrays of () with close to usize::MAX cells (usize::MAX x 1, 1 x usize::MAX, MAX/k x k, 2^32 x (2^32-1), ...) from init / new / from_vec / from_box, then swap_dimensions, then clear: the shape invariant and the reported lengths of rows(), cells(), col(first), col(last) at every step; \
         (ii) wide and tall arrays (21, 33, 40, 48 lines, exact and spare capacity) through the in-place algorithms - sorts on tie-rich key lines (std's unstable sort only differs from a stable one beyond 20 elements), flips, translate, swaps - against the model. \
         (iii) two-step (thorough: also three-step, from the shapes up to 2x2) histories on ONE live object (nothing re-materialised between the steps, so spare capacity and stale bits beyond the length are carried over): from the distinct-label array of each shape up to 3x2 / 2x3, every action (exact and spare capacity) followed by every action of the state reached, with the same oracle after each step. \
         (iv) arrays whose dimensions cross 256 (thorough: 65536 - sizes at which a narrowed integer would truncate and library algorithms change strategy): insertion, removal (drains consumed from both ends), pop / push, clear, swap_dimensions, flips, translate, swaps, sorts, fill, copy_within at the first, a middle and the last index, exact and spare capacity, against the model. \
         (v) owned arrays constructed from views: TooDee::from of every window (view and view_mut) of every shape up to 3x3 and of views built directly over an exact and over a longer slice, checked like any other initial state. \
         Afterwards each state's shortest history is replayed on one live object and must reach the recorded key (traces_validated_against_impl)."
            .into()
    }
    fn bound(&self, tier: Tier) -> String {
        let (cells, dim) = tier.pick(QUICK, THOROUGH);
        format!("all states with <= {} cells and dims <= {}, to fixpoint; successors beyond the cap are checked but not expanded", cells, dim)
    }
    fn assumptions(&self) -> Vec<String> {
        vec![
            "capacity is abstracted from the state key: toodee never branches on capacity, Vec::reserve either moves the buffer or not, and both outcomes are forced at every transition (exact and spare materialisation)".into(),
            "rank compression of labels is sound because every operation is parametric in T or a comparison sort (commutes with order isomorphisms)".into(),
            "64-bit usize only".into(),
        ]
    }
}

/// The shape invariant and the reported iterator lengths on arrays of () with close to usize::MAX cells.
fn run_huge_zst(c: usize, r: usize, ctx: &mut Ctx) {
    for ctor in ["init", "new", "from_vec", "from_box"] {
        ctx.case(
            || format!("TooDee<()> {}x{} via {}, then swap_dimensions, then clear", c, r, ctor),
            |cs| {
                cs.nontrivial((c, r, ctor));
                cs.outcome("huge-zst");
                cs.transitions = 3;
                let built = guarded(|| match ctor {
                    "init" => TooDee::init(c, r, ()),
                    "new" => TooDee::<()>::new(c, r),
                    "from_vec" => TooDee::from_vec(c, r, vec![(); c * r]),
                    _ => TooDee::from_box(c, r, vec![(); c * r].into_boxed_slice()),
                });
                let mut t = match built {
                    Ok(t) => t,
                    Err(m) => {
                        cs.fail("hugezst:panic", format!("{} of a {}x{} array of () panicked: {}", ctor, c, r, m));
                        return;
                    }
                };
                let mut observe = |t: &TooDee<()>, ec: usize, er: usize, at: &str, cs: &mut crate::engine::Case| {
                    let got = guarded(|| {
                        let (nc, nr) = (t.num_cols(), t.num_rows());
                        let cols = if nc > 0 { Some((t.col(0).len(), t.col(nc - 1).len())) } else { None };
                        (nc, nr, t.data().len(), t.rows().len(), t.cells().len(), cols)
                    });
                    match got {
                        Err(m) => cs.fail("hugezst:panic", format!("{}: observing the array panicked: {}", at, m)),
                        Ok((nc, nr, len, rl, cl, cols)) => {
                            if (nc, nr) != (ec, er) || nc.checked_mul(nr) != Some(len) || (nc == 0) != (nr == 0) {
                                cs.fail("shape:len", format!("{}: size ({},{}) over {} cells, expected ({},{})", at, nc, nr, len, ec, er));
                            } else if rl != nr || cl != len || cols.map_or(false, |(a, b)| a != nr || b != nr) {
                                cs.fail("shape:rows-len", format!("{}: rows().len() = {}, cells().len() = {}, col(first/last).len() = {:?} on a {}x{} array", at, rl, cl, cols, nc, nr));
                            }
                        }
                    }
                };
                observe(&t, c, r, "after construction", cs);
                if cs.tier == crate::engine::Tier::Thorough {
                    // an insertion that cannot fit (the cell count would exceed usize::MAX) must be rejected and leave
                    // the array as it was (thorough tier: assumes the rejection does not walk the cells first)
                    if (c * r).checked_add(r).is_none() {
                        if guarded(|| t.push_col(vec![(); r])).is_ok() {
                            cs.fail("insert:accepts-invalid", format!("push_col on a {}x{} array of () returned", c, r));
                        }
                        observe(&t, c, r, "after a rejected push_col", cs);
                    }
                    if (c * r).checked_add(c).is_none() {
                        if guarded(|| t.push_row(vec![(); c])).is_ok() {
                            cs.fail("insert:accepts-invalid", format!("push_row on a {}x{} array of () returned", c, r));
                        }
                        observe(&t, c, r, "after a rejected push_row", cs);
                    }
                }
                if let Err(m) = guarded(|| t.swap_dimensions()) {
                    cs.fail("hugezst:panic", format!("swap_dimensions panicked: {}", m));
                    return;
                }
                observe(&t, r, c, "after swap_dimensions", cs);
                if let Err(m) = guarded(|| t.clear()) {
                    cs.fail("hugezst:panic", format!("clear panicked: {}", m));
                    return;
                }
                observe(&t, 0, 0, "after clear", cs);
            },
        );
    }
}

/// Wide and tall arrays through the in-place algorithms, against the model (same oracle as the search).
fn run_wide(k: usize, ctx: &mut Ctx) {
    for (c, r) in [(k, 2usize), (2, k), (k, 1), (1, k)] {
        // tie-rich key lines: the first row / column carries keys (i*a+b) mod m, the rest unique labels
        for (a, b, m) in [(1usize, 0usize, 2usize), (3, 1, 3), (5, 0, 4), (7, 1, 4), (1, 0, 1)] {
            let mut labels: Vec<u32> = (0..(c * r) as u32).map(|i| 100 + i).collect();
            for i in 0..k {
                let key = ((i * a + b) % m) as u32;
                // the key row (for a wide array) or key column (for a tall one)
                let idx = if c >= r { i } else { i * c };
                labels[idx] = key;
            }
            let mut acts = vec![Act::new("srt", &[0]), Act::new("sct", &[0]), Act::new("flr", &[]), Act::new("flc", &[]), Act::new("trn", &[1, 1.min(r - 1)]), Act::new("swr", &[0, r - 1]), Act::new("swc", &[0, c - 1])];
            if r > 1 {
                acts.push(Act::new("srt", &[r - 1]));
            }
            if c > 1 {
                acts.push(Act::new("sct", &[c - 1]));
            }
            for act in acts {
                for cap in ['x', 's'] {
                    let mut act = act.clone();
                    act.cap = cap;
                    ctx.case(
                        || format!("{}x{} array with key line (i*{}+{}) mod {}: action {}", c, r, a, b, m, act.enc()),
                        |cs| {
                            cs.transitions = 1;
                            cs.outcome("accepted");
                            cs.nontrivial((c, r, a, b, m, &act.op, &act.a, cap));
                            let mut t: TooDee<u32> = materialize(c, r, &labels, cap == 's');
                            let mut model: Model<u32> = Model::from_flat(c, r, &labels);
                            let panicked = apply(&mut t, &mut model, &act, cs);
                            if panicked {
                                cs.fail("wide:panics-on-valid", format!("{} panicked on a {}x{} array", act.enc(), c, r));
                            }
                            check_state(&t, &model, cs, &format!("after {}", act.enc()));
                        },
                    );
                }
            }
        }
    }
}

/// Arrays whose dimensions cross 256 / 65536 through one action each, against the model (same oracle as the search).
fn run_mid(c: usize, r: usize, ctx: &mut Ctx) {
    let labels: Vec<u32> = (0..(c * r) as u32).map(|i| (i * 7 + 3) % 1000).collect();
    let mut acts: Vec<Act> = Vec::new();
    for i in [0, r / 2, r] {
        acts.push(Act::new("ir", &[i, c]));
    }
    for i in [0, c / 2, c] {
        acts.push(Act::new("ic", &[i, r]));
    }
    acts.push(Act::new("pr", &[c]));
    acts.push(Act::new("pc", &[r]));
    for i in [0, r / 2, r - 1] {
        for (f, b) in [(0, 0), (1, 1), (c / 2, 0), (0, c / 2)] {
            if f + b <= c {
                acts.push(Act::new("rr", &[i, f, b]));
            }
        }
    }
    for i in [0, c / 2, c - 1] {
        for (f, b) in [(0, 0), (1, 1), (r / 2, 0), (0, r / 2)] {
            if f + b <= r {
                acts.push(Act::new("rc", &[i, f, b]));
            }
        }
    }
    acts.push(Act::new("qr", &[1.min(c), 0]));
    acts.push(Act::new("qc", &[0, 1.min(r)]));
    for op in ["clr", "sd", "flr", "flc", "fill", "shr"] {
        acts.push(Act::new(op, &[]));
    }
    acts.push(Act::new("trn", &[c / 2, r / 2]));
    acts.push(Act::new("trn", &[1.min(c - 1), r - 1]));
    acts.push(Act::new("swr", &[0, r - 1]));
    acts.push(Act::new("swc", &[0, c - 1]));
    acts.push(Act::new("swp", &[0, 0, c - 1, r - 1]));
    for i in [0, r - 1] {
        acts.push(Act::new("srt", &[i]));
    }
    for i in [0, c - 1] {
        acts.push(Act::new("sct", &[i]));
    }
    acts.push(Act::new("cpw", &[0, 0, c / 2, r / 2 + 1, c - c / 2, r - r / 2 - 1]));
    acts.push(Act::new("wr", &[c - 1, r - 1]));
    acts.push(Act::new("cfs", &[c, r]));
    acts.push(Act::new("cft", &[c, r]));
    acts.push(Act::new("clf", &[c, r]));
    acts.push(Act::new("clf", &[r, c]));
    acts.push(Act::new("rrx", &[r / 2, 2]));
    acts.push(Act::new("rcx", &[c / 2, 3]));
    for act in acts {
        for cap in ['x', 's'] {
            let mut act = act.clone();
            act.cap = cap;
            ctx.case(
                || format!("{}x{} array: action {}", c, r, act.enc()),
                |cs| {
                    cs.transitions = 1;
                    cs.outcome("accepted");
                    cs.nontrivial((c, r, &act.op, &act.a, cap));
                    let mut t: TooDee<u32> = materialize(c, r, &labels, cap == 's');
                    let mut act = act.clone();
                    if cap == 's' {
                        // room for a whole line and more (the standard spare capacity is smaller than these lines)
                        t.reserve(c.max(r) + 24);
                        act.cap = '-';
                    }
                    let mut model: Model<u32> = Model::from_flat(c, r, &labels);
                    let panicked = apply(&mut t, &mut model, &act, cs);
                    if panicked {
                        cs.fail("mid:panics-on-valid", format!("{} panicked on a {}x{} array", act.enc(), c, r));
                    }
                    check_state(&t, &model, cs, &format!("after {}", act.enc()));
                },
            );
        }
    }
}

/// Owned arrays constructed with `TooDee::from(view)`: initial states like any other constructor's.
fn run_from_view(c: usize, r: usize, ctx: &mut Ctx) {
    use crate::engine::util::windows;
    use toodee::{TooDeeOpsMut, TooDeeView, TooDeeViewMut};
    let labels: Vec<u32> = (0..(c * r) as u32).collect();
    let mut jobs: Vec<(String, (usize, usize), (usize, usize))> = Vec::new();
    for (s, e) in windows(c, r) {
        jobs.push(("view".into(), s, e));
        jobs.push(("view_mut".into(), s, e));
    }
    for k in ["TooDeeView::new", "TooDeeViewMut::new", "TooDeeView::new over a longer slice", "TooDeeViewMut::new over a longer slice"] {
        jobs.push((k.into(), (0, 0), (c, r)));
    }
    for (how, s, e) in jobs {
        ctx.case(
            || format!("TooDee::from({} {:?}-{:?}) of a {}x{} array", how, s, e, c, r),
            |cs| {
                cs.transitions = 1;
                cs.outcome("accepted");
                cs.nontrivial((c, r, &how, s, e));
                let mut p: TooDee<u32> = materialize(c, r, &labels, false);
                let mut long: Vec<u32> = labels.clone();
                long.extend([7001, 7002, 7003]);
                let (w, h) = if e.0 == s.0 || e.1 == s.1 { (0, 0) } else { (e.0 - s.0, e.1 - s.1) };
                let mut exp: Vec<u32> = Vec::new();
                for y in 0..h {
                    for x in 0..w {
                        exp.push(labels[(s.1 + y) * c + s.0 + x]);
                    }
                }
                let model: Model<u32> = Model::from_flat(w, h, &exp);
                let built = guarded(|| match how.as_str() {
                    "view" => TooDee::from(p.view(s, e)),
                    "view_mut" => TooDee::from(p.view_mut(s, e)),
                    "TooDeeView::new" => TooDee::from(TooDeeView::new(c, r, &long[..c * r])),
                    "TooDeeViewMut::new" => TooDee::from(TooDeeViewMut::new(c, r, &mut long[..c * r])),
                    "TooDeeView::new over a longer slice" => TooDee::from(TooDeeView::new(c, r, &long)),
                    _ => TooDee::from(TooDeeViewMut::new(c, r, &mut long)),
                });
                match built {
                    Ok(t) => {
                        check_state(&t, &model, cs, &format!("after TooDee::from({})", how));
                    }
                    Err(m) => cs.fail("ctor:panics-on-valid", format!("TooDee::from({}) panicked: {}", how, m)),
                }
            },
        );
    }
}
