//! C08 - row iterators behave as the ideal double-ended exact-size sequence (call-sequence exploration).

use toodee::{TooDee, TooDeeIterator, TooDeeOps, TooDeeOpsMut};

use super::seqx::{alphabet, enc_seq, guarded_run, run_sequence, sequences, Term, Tok, TERMS};
use crate::engine::util::{huge_for_mul, shapes};
use crate::engine::{Case, Ctx, Profile, Prop, Tier};

pub struct C08P;
pub static C08: C08P = C08P;

/// Subject kinds: how the receiver whose rows are iterated is obtained.
pub const KINDS: [&str; 16] = ["O", "V1", "V3", "M1", "M2", "N", "D", "DL", "DV", "DN", "VC", "VI", "MV", "VV", "VF", "MF"];

/// (parent cols, parent rows, abs start of the receiver) for a receiver of size (c, r).
pub fn layout(kind: &str, c: usize, r: usize) -> (usize, usize, (usize, usize)) {
    match kind {
        "O" | "D" => (c, r, (0, 0)),
        // direct view over a slice with one surplus row (1 x 1 root for the empty view)
        // window (1,1)-(1+c,1+r) of a (c+2) x (r+2) view built directly over a slice with a surplus row
        "DN" => (c + 2, r + 3, (1, 1)),
        "DL" | "DV" => {
            if c == 0 {
                (1, 1, (0, 0))
            } else {
                (c, r + 1, (0, 0))
            }
        }
        "V1" => (c + 1, r.max(1), (1, 0)),
        // V3 through an explicit Clone::clone; a mutable window converted with From / into()
        "V3" | "VC" => (c + 3, r + 2, (1, 1)),
        "VI" => (c + 2, r + 2, (1, 1)),
        "M1" => (c + 1, r.max(1), (0, 0)),
        "M2" => (c + 2, r + 2, (1, 1)),
        // nested: outer window (1,0)-(c+2, r+1) of a (c+3) x (r+1) parent, inner (1,1)-(1+c,1+r)
        "N" | "MV" | "VV" => (c + 3, r + 1, (2, 1)),
        // full-width band of rows of a narrow outer window: outer (1,0)-(1+c, r+2) of a (c+2) x (r+2) parent, inner (0,1)-(c,1+r)
        "VF" | "MF" => (c + 2, r + 2, (1, 1)),
        _ => panic!("bad kind"),
    }
}

/// Builds the receiver described by (kind, c, r) over `$root` and runs `$body` with `$x` bound to it
/// (immutably usable; mutable for M*/N/O/D kinds through `$xm`).
#[macro_export]
macro_rules! with_subject {
    ($kind:expr, $c:expr, $r:expr, $root:ident, |$x:ident| $ro:block, |$xm:ident| $rw:block, $mutable:expr) => {{
        let (c__, r__) = ($c, $r);
        match ($kind, $mutable) {
            ("O", false) => {
                let $x = &$root;
                $ro
            }
            ("O", true) => {
                let $xm = &mut $root;
                $rw
            }
            ("D", false) => {
                let v__ = toodee::TooDeeView::new(c__, r__, $root.data());
                let $x = &v__;
                $ro
            }
            ("D", true) => {
                let mut v__ = toodee::TooDeeViewMut::new(c__, r__, $root.data_mut());
                let $xm = &mut v__;
                $rw
            }
            ("DL", false) => {
                let v__ = toodee::TooDeeViewMut::new(c__, r__, $root.data_mut());
                let $x = &v__;
                $ro
            }
            ("DN", false) => {
                let mut o__ = toodee::TooDeeViewMut::new(c__ + 2, r__ + 2, $root.data_mut());
                let v__ = o__.view_mut((1, 1), (1 + c__, 1 + r__));
                let $x = &v__;
                $ro
            }
            ("DN", true) => {
                let mut o__ = toodee::TooDeeViewMut::new(c__ + 2, r__ + 2, $root.data_mut());
                let mut v__ = o__.view_mut((1, 1), (1 + c__, 1 + r__));
                let $xm = &mut v__;
                $rw
            }
            ("DV", _) => {
                let v__ = toodee::TooDeeView::new(c__, r__, $root.data());
                let $x = &v__;
                $ro
            }
            ("DL", true) => {
                let mut v__ = toodee::TooDeeViewMut::new(c__, r__, $root.data_mut());
                let $xm = &mut v__;
                $rw
            }
            ("V1", _) => {
                let v__ = $root.view((1, 0), (1 + c__, r__));
                let $x = &v__;
                $ro
            }
            ("V3", _) => {
                let v__ = $root.view((1, 1), (1 + c__, 1 + r__));
                let $x = &v__;
                $ro
            }
            ("VC", _) => {
                let v0__ = $root.view((1, 1), (1 + c__, 1 + r__));
                #[allow(clippy::clone_on_copy)]
                let v__ = Clone::clone(&v0__);
                let $x = &v__;
                $ro
            }
            ("VI", _) => {
                let v__: toodee::TooDeeView<'_, _> = $root.view_mut((1, 1), (1 + c__, 1 + r__)).into();
                let $x = &v__;
                $ro
            }
            ("M1", false) => {
                let v__ = $root.view_mut((0, 0), (c__, r__));
                let $x = &v__;
                $ro
            }
            ("M1", true) => {
                let mut v__ = $root.view_mut((0, 0), (c__, r__));
                let $xm = &mut v__;
                $rw
            }
            ("M2", false) => {
                let v__ = $root.view_mut((1, 1), (1 + c__, 1 + r__));
                let $x = &v__;
                $ro
            }
            ("M2", true) => {
                let mut v__ = $root.view_mut((1, 1), (1 + c__, 1 + r__));
                let $xm = &mut v__;
                $rw
            }
            // a read-only view of a mutable window / of a read-only window (same geometry as N)
            ("MV", _) => {
                let o__ = $root.view_mut((1, 0), (c__ + 2, r__ + 1));
                let v__ = o__.view((1, 1), (1 + c__, 1 + r__));
                let $x = &v__;
                $ro
            }
            ("VV", _) => {
                let o__ = $root.view((1, 0), (c__ + 2, r__ + 1));
                let v__ = o__.view((1, 1), (1 + c__, 1 + r__));
                let $x = &v__;
                $ro
            }
            // a child spanning ALL columns of a parent window that is narrower than the array
            ("VF", _) => {
                let o__ = $root.view((1, 0), (1 + c__, r__ + 2));
                let (s2__, e2__) = if c__ == 0 || r__ == 0 { ((0, 0), (0, 0)) } else { ((0, 1), (c__, 1 + r__)) };
                let v__ = o__.view(s2__, e2__);
                let $x = &v__;
                $ro
            }
            ("MF", false) => {
                let mut o__ = $root.view_mut((1, 0), (1 + c__, r__ + 2));
                let (s2__, e2__) = if c__ == 0 || r__ == 0 { ((0, 0), (0, 0)) } else { ((0, 1), (c__, 1 + r__)) };
                let v__ = o__.view_mut(s2__, e2__);
                let $x = &v__;
                $ro
            }
            ("MF", true) => {
                let mut o__ = $root.view_mut((1, 0), (1 + c__, r__ + 2));
                let (s2__, e2__) = if c__ == 0 || r__ == 0 { ((0, 0), (0, 0)) } else { ((0, 1), (c__, 1 + r__)) };
                let mut v__ = o__.view_mut(s2__, e2__);
                let $xm = &mut v__;
                $rw
            }
            ("N", false) => {
                let mut o__ = $root.view_mut((1, 0), (c__ + 2, r__ + 1));
                let v__ = o__.view_mut((1, 1), (1 + c__, 1 + r__));
                let $x = &v__;
                $ro
            }
            ("N", true) => {
                let mut o__ = $root.view_mut((1, 0), (c__ + 2, r__ + 1));
                let mut v__ = o__.view_mut((1, 1), (1 + c__, 1 + r__));
                let $xm = &mut v__;
                $rw
            }
            _ => panic!("bad subject kind"),
        }
    }};
}

pub fn has_mut(kind: &str) -> bool {
    !(kind.starts_with('V') || kind == "DV" || kind == "MV")
}

pub fn new_root(pc: usize, pr: usize) -> TooDee<u32> {
    TooDee::from_vec(pc, pr, (0..(pc * pr) as u32).collect())
}

/// After a run on a mutable iterator: the root must show exactly the writes made through the
/// yielded items (item k, element j holds MARK + 100k + j), everything else untouched.
pub fn verify_writes(root: &TooDee<u32>, base: usize, yielded: &[Tok], cs: &mut Case) {
    let mut expect: Vec<u32> = (0..root.data().len() as u32).collect();
    for (k, (a, l)) in yielded.iter().enumerate() {
        let off = (a - base) / 4;
        for j in 0..*l {
            if off + j < expect.len() {
                expect[off + j] = MARK + (k as u32) * 100 + j as u32;
            }
        }
    }
    if root.data() != &expect[..] {
        cs.fail("iter:write-through", format!("after writing through every yielded item the array is {:?}, expected {:?}", root.data(), expect));
    }
}
pub const MARK: u32 = 1_000_000;

fn nth_values(rows: usize, stride: usize, slice_len: usize, tier: Tier) -> Vec<usize> {
    let mut ns: Vec<usize> = (0..=rows + 1).collect();
    let hs = huge_for_mul(&[stride.max(1)], slice_len, rows + 2);
    // wrap candidates first (smallest), then the extremes
    let take = tier.pick(2, 6);
    ns.extend(hs.iter().copied().filter(|h| *h < usize::MAX - 3).take(take));
    ns.push(usize::MAX / stride.max(1));
    ns.push(usize::MAX);
    ns.sort_unstable();
    ns.dedup();
    ns
}

impl Prop for C08P {
    fn id(&self) -> &'static str {
        "C08"
    }
    fn level(&self) -> &'static str {
        "model_checking"
    }
    fn profiles(&self, _tier: Tier) -> Vec<Profile> {
        vec![Profile::Chk, Profile::Wrap]
    }
    fn units(&self, tier: Tier) -> Vec<String> {
        let n = tier.pick(3, 4);
        let mut v = Vec::new();
        for (c, r) in shapes(n) {
            for k in KINDS {
                v.push(format!("{} {}x{} rows", k, c, r));
                if has_mut(k) {
                    v.push(format!("{} {}x{} rows_mut", k, c, r));
                }
            }
        }
        // taller single-column / wide single-row subjects
        for (c, r) in [(1, n + 2), (n + 2, 1)] {
            for k in ["O", "M2"] {
                v.push(format!("{} {}x{} rows", k, c, r));
                v.push(format!("{} {}x{} rows_mut", k, c, r));
            }
        }
        for (c, r) in super::hugezst::shapes() {
            v.push(format!("hugezst {}x{}", c, r));
        }
        for (c, r) in super::hugezst::mid_shapes(tier) {
            v.push(format!("midsize {}x{}", c, r));
        }
        v
    }
    fn run_unit(&self, unit: &str, ctx: &mut Ctx) {
        let p: Vec<&str> = unit.split(' ').collect();
        if p[0] == "midsize" {
            let (c, r) = super::hugezst::parse_shape(p[1]);
            run_mid(c, r, ctx);
            return;
        }
        if p[0] == "hugezst" {
            let (c, r) = super::hugezst::parse_shape(p[1]);
            run_huge_zst(c, r, ctx);
            return;
        }
        let kind = p[0];
        let (c, r) = p[1].split_once('x').unwrap();
        let (c, r): (usize, usize) = (c.parse().unwrap(), r.parse().unwrap());
        let mutable = p[2] == "rows_mut";
        run_subject(kind, c, r, mutable, ctx);
    }
    fn rule(&self) -> String {
        "subjects: rows() and rows_mut() of owned arrays, TooDeeView / TooDeeViewMut windows with stride > width (skip 1, 2, 3), nested windows, directly constructed views (over an exact slice and over a slice with surplus cells), for every shape in the bound (incl. empty, width 1, height 1). \
         For every subject EVERY call sequence up to the depth bound over {next, next_back, nth(n), nth_back(n)} with n in 0..=rows+1 plus overflow-provoking values (indices whose product with the stride wraps into the slice, usize::MAX/stride, usize::MAX), cut two calls after the ideal sequence is exhausted, \
         is executed on a fresh real iterator; len(), size_hint() and num_cols() are checked after every call; every proper prefix is additionally closed with each of count, last, fold, rfold, for_each, rev-then-forward. \
         Every result must equal the ideal VecDeque of row slices compared by ADDRESS and length; for rows_mut every yielded slice is written through and the array must show exactly those writes (disjointness, write-through). \
         Arrays of () with close to usize::MAX cells (shapes usize::MAX x 1, 1 x usize::MAX, MAX/k x k, 2^32 x (2^32-1), ...) and their windows: rows() / rows_mut() must report exact len()/size_hint(), yield rows of the window's width and follow the ideal sequence by count for every sequence of up to three calls of next / next_back / nth(0..=2) / nth_back(0..=2), and - when at most four rows are left - jumps by huge n, count and last. \
         Arrays of ordinary cells whose dimensions cross 256 (thorough: 65536; sizes at which a narrowed integer would truncate and library algorithms change strategy), and strided windows of them: the same short sequences with jumps by 254..257, 65534..65537, len-2..len+1 and huge n, every yielded row compared by ADDRESS and length. \
         states = distinct (subject, front, back) cursor positions of the ideal sequence reached; transitions = iterator calls; traces_validated_against_impl = sequences executed on the real iterator."
            .into()
    }
    fn bound(&self, tier: Tier) -> String {
        format!("shapes up to {0}x{0} plus 1x{1} and {1}x1; depth {2}", tier.pick(3, 4), tier.pick(3, 4) + 2, tier.pick(4, 5))
    }
}

/// rows() / rows_mut() of huge arrays of () and of their windows (see props/hugezst.rs).
fn run_huge_zst(c: usize, r: usize, ctx: &mut Ctx) {
    use super::hugezst::{array, enc, run, sequences, windows};
    for (s, e) in windows(c, r) {
        let (wc, wr) = (e.0 - s.0, e.1 - s.1);
        for seq in sequences(wr, &[c, wc]) {
            for kind in 0..4u8 {
                if kind < 2 && (s, e) != ((0, 0), (c, r)) {
                    continue;
                }
                let name = ["TooDee::rows()", "TooDee::rows_mut()", "view(..).rows()", "view_mut(..).rows_mut()"][kind as usize];
                ctx.case(
                    || format!("TooDee<()> {}x{} window {:?}-{:?} {}: {}", c, r, s, e, name, enc(&seq)),
                    |cs| {
                        cs.nontrivial((c, r, s, e, kind, &seq));
                        cs.outcome("huge-zst");
                        cs.transitions = seq.len() as u64;
                        cs.traces = 1;
                        let mut t = array(c, r);
                        let what = format!("{} of the {}x{} window", name, wc, wr);
                        let ok = |row_len: usize| if row_len == wc { None } else { Some(format!("row of length {} yielded, the window is {} wide", row_len, wc)) };
                        match kind {
                            0 => run(t.rows(), wr, &seq, |x| ok(x.len()), &what, cs),
                            1 => run(t.rows_mut(), wr, &seq, |x| ok(x.len()), &what, cs),
                            2 => match crate::engine::guarded(|| t.view(s, e)) {
                                Ok(v) => run(v.rows(), wr, &seq, |x| ok(x.len()), &what, cs),
                                Err(m) => cs.fail("hugezst:panic", format!("view({:?},{:?}) panicked: {}", s, e, m)),
                            },
                            _ => match crate::engine::guarded(|| t.view_mut(s, e)) {
                                Ok(mut v) => run(v.rows_mut(), wr, &seq, |x| ok(x.len()), &what, cs),
                                Err(m) => cs.fail("hugezst:panic", format!("view_mut({:?},{:?}) panicked: {}", s, e, m)),
                            },
                        }
                    },
                );
            }
        }
    }
}

fn run_subject(kind: &str, c: usize, r: usize, mutable: bool, ctx: &mut Ctx) {
    let (pc, pr, abs) = layout(kind, c, r);
    let stride = pc;
    let slice_len = if r == 0 { 0 } else { (r - 1) * stride + c };
    let depth = ctx.tier.pick(4, 5).min(if r > 4 { 4 } else { 9 });
    let ns = nth_values(r, stride, slice_len, ctx.tier);
    let alpha = alphabet(&ns);
    let (maxi, inner) = sequences(&alpha, r, depth, 2);
    let mut jobs: Vec<(Vec<super::seqx::Call>, Term)> = maxi.into_iter().map(|s| (s, Term::None)).collect();
    for s in inner {
        for t in TERMS {
            jobs.push((s.clone(), t));
        }
    }
    for (seq, term) in jobs {
        ctx.case(
            || format!("{} {}x{} {}: {}", kind, c, r, if mutable { "rows_mut()" } else { "rows()" }, enc_seq(&seq, term)),
            |cs| {
                let mut root = new_root(pc, pr);
                let base = root.data().as_ptr() as usize;
                let ideal: Vec<Tok> = (0..r).map(|y| (base + ((abs.1 + y) * pc + abs.0) * 4, c)).collect();
                cs.traces = 1;
                cs.outcome(if term == Term::None { "calls-only" } else { "closed-by-terminal" });
                if r > 0 {
                    cs.nontrivial((kind, c, r, mutable, &seq, term));
                }
                // model cursor state reached at the end of the sequence
                {
                    let mut d: std::collections::VecDeque<Tok> = ideal.iter().copied().collect();
                    for call in &seq {
                        super::seqx::ideal_step(&mut d, *call);
                    }
                    let front = d.front().map(|t| t.0 - base).unwrap_or(usize::MAX);
                    cs.state((kind, c, r, mutable, d.len(), front));
                }
                let mut yielded: Vec<Tok> = Vec::new();
                guarded_run(cs, |cs| {
                    with_subject!(
                        kind,
                        c,
                        r,
                        root,
                        |x| {
                            yielded = run_sequence(
                                x.rows(),
                                &seq,
                                term,
                                &ideal,
                                |s: &[u32]| (s.as_ptr() as usize, s.len()),
                                |it, _, _, cs: &mut Case| {
                                    if it.num_cols() != c {
                                        cs.fail("iter:num_cols", format!("num_cols() = {} but the receiver has {} columns", it.num_cols(), c));
                                    }
                                },
                                cs,
                            );
                        },
                        |x| {
                            let mut k = 0u32;
                            yielded = run_sequence(
                                x.rows_mut(),
                                &seq,
                                term,
                                &ideal,
                                |s: &mut [u32]| {
                                    for (j, e) in s.iter_mut().enumerate() {
                                        *e = MARK + k * 100 + j as u32;
                                    }
                                    k += 1;
                                    (s.as_ptr() as usize, s.len())
                                },
                                |it, _, _, cs: &mut Case| {
                                    if it.num_cols() != c {
                                        cs.fail("iter:num_cols", format!("num_cols() = {} but the receiver has {} columns", it.num_cols(), c));
                                    }
                                },
                                cs,
                            );
                        },
                        mutable
                    )
                });
                if mutable && !cs.failed() {
                    verify_writes(&root, base, &yielded, cs);
                } else if !mutable && root.data().iter().enumerate().any(|(i, v)| *v != i as u32) {
                    cs.fail("iter:modified", "a shared-reference iterator modified the array".into());
                }
            },
        );
    }
}

/// rows() / rows_mut() of arrays whose dimensions cross 256 / 65536 and of strided windows of them: short call
/// sequences with jumps around those sizes, items compared by address (ideal position tracked by hugezst::run_indexed).
fn run_mid(c: usize, r: usize, ctx: &mut Ctx) {
    use super::hugezst::{enc, mid_sequences, run_indexed};
    let mut wins: Vec<((usize, usize), (usize, usize))> = vec![((0, 0), (c, r))];
    if c > 1 {
        wins.push(((1, 0), (c, r)));
        wins.push(((0, 0), (c - 1, r)));
    }
    if r > 2 {
        wins.push(((0, 1), (c, r - 1)));
    }
    for (s, e) in wins {
        let (wc, wr) = (e.0 - s.0, e.1 - s.1);
        for seq in mid_sequences(wr, &[c, wc]) {
            for kind in 0..4u8 {
                if kind < 2 && (s, e) != ((0, 0), (c, r)) {
                    continue;
                }
                let name = ["TooDee::rows()", "TooDee::rows_mut()", "view(..).rows()", "view_mut(..).rows_mut()"][kind as usize];
                ctx.case(
                    || format!("TooDee<u32> {}x{} window {:?}-{:?} {}: {}", c, r, s, e, name, enc(&seq)),
                    |cs| {
                        cs.nontrivial((c, r, s, e, kind, &seq));
                        cs.outcome("mid-size");
                        cs.transitions = seq.len() as u64;
                        cs.traces = 1;
                        let mut t = new_root(c, r);
                        let base = t.data().as_ptr() as usize;
                        let what = format!("{} of the {}x{} window", name, wc, wr);
                        let ok = |addr: usize, len: usize, idx: usize| {
                            let exp = base + ((s.1 + idx) * c + s.0) * 4;
                            if addr == exp && len == wc {
                                None
                            } else {
                                Some(format!("row #{} of the window expected at {:#x} with {} cells, got {:#x} with {}", idx, exp, wc, addr, len))
                            }
                        };
                        match kind {
                            0 => run_indexed(t.rows(), wr, &seq, |x, i| ok(x.as_ptr() as usize, x.len(), i), true, &what, cs),
                            1 => run_indexed(t.rows_mut(), wr, &seq, |x, i| ok(x.as_ptr() as usize, x.len(), i), true, &what, cs),
                            2 => {
                                let v = t.view(s, e);
                                run_indexed(v.rows(), wr, &seq, |x, i| ok(x.as_ptr() as usize, x.len(), i), true, &what, cs)
                            }
                            _ => {
                                let mut v = t.view_mut(s, e);
                                run_indexed(v.rows_mut(), wr, &seq, |x, i| ok(x.as_ptr() as usize, x.len(), i), true, &what, cs)
                            }
                        }
                    },
                );
            }
        }
    }
}
