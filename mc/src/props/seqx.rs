//! Generic explorer for double-ended exact-size iterators against the ideal sequence
//! (shared by C08 rows, C09 columns, C10 cells).

use std::collections::VecDeque;

use crate::engine::{guarded, Case};

/// What an iterator yields, reduced to something comparable: (address, length).
pub type Tok = (usize, usize);

#[derive(Clone, Copy, Debug, PartialEq, Eq, Hash)]
pub enum Call {
    Next,
    NextBack,
    Nth(usize),
    NthBack(usize),
}
#[derive(Clone, Copy, Debug, PartialEq, Eq, Hash)]
pub enum Term {
    None,
    Count,
    Last,
    Fold,
    Rfold,
    ForEach,
    /// collect via by_ref().rev() then the rest forwards
    RevThenFwd,
    /// skip(1).step_by(2), collected (adaptors built on nth)
    SkipStep,
    /// rev().skip(1), collected (adaptors built on nth_back)
    RevSkip,
    /// by_ref().find(|_| false) visits everything and leaves an exhausted iterator
    FindNone,
    /// find / rfind called directly on the iterator with a predicate that accepts the k-th item it is shown
    FindAt(u8),
    RfindAt(u8),
    /// position / rposition called directly, accepting the k-th item shown
    PositionAt(u8),
    RpositionAt(u8),
    /// all(|_| true) and any(|_| false) called directly: both visit everything
    All,
    Any,
    /// collect::<Vec<_>>() called directly
    Collect,
}
pub const TERMS: [Term; 24] = [
    Term::Count,
    Term::Last,
    Term::Fold,
    Term::Rfold,
    Term::ForEach,
    Term::RevThenFwd,
    Term::SkipStep,
    Term::RevSkip,
    Term::FindNone,
    Term::FindAt(0),
    Term::FindAt(1),
    Term::FindAt(2),
    Term::RfindAt(0),
    Term::RfindAt(1),
    Term::RfindAt(2),
    Term::PositionAt(0),
    Term::PositionAt(1),
    Term::PositionAt(2),
    Term::RpositionAt(0),
    Term::RpositionAt(1),
    Term::RpositionAt(2),
    Term::All,
    Term::Any,
    Term::Collect,
];

/// What a terminal must visit (in order), what it must return, and what must be left in the iterator
/// (None = the iterator was consumed), for the ideal remainder `rest`.
pub struct TermIdeal {
    pub visited: Vec<Tok>,
    pub left: Option<Vec<Tok>>,
    /// position / rposition result, count result
    pub index: Option<Option<usize>>,
}
pub fn jump_ideal(term: Term, rest: &[Tok]) -> Option<TermIdeal> {
    let n = rest.len();
    match term {
        Term::FindAt(k) | Term::PositionAt(k) => {
            let k = k as usize;
            let hit = k < n;
            let visited: Vec<Tok> = if term == Term::FindAt(k as u8) { rest.get(k).copied().into_iter().collect() } else { rest.iter().take(k + 1).copied().collect() };
            Some(TermIdeal { visited, left: Some(if hit { rest[k + 1..].to_vec() } else { Vec::new() }), index: Some(if hit { Some(k) } else { None }) })
        }
        Term::RfindAt(k) | Term::RpositionAt(k) => {
            let k = k as usize;
            let hit = k < n;
            let visited: Vec<Tok> = if term == Term::RfindAt(k as u8) { if hit { vec![rest[n - 1 - k]] } else { Vec::new() } } else { rest.iter().rev().take(k + 1).copied().collect() };
            Some(TermIdeal { visited, left: Some(if hit { rest[..n - 1 - k].to_vec() } else { Vec::new() }), index: Some(if hit { Some(n - 1 - k) } else { None }) })
        }
        Term::All | Term::Any => Some(TermIdeal { visited: rest.to_vec(), left: Some(Vec::new()), index: None }),
        Term::Collect => Some(TermIdeal { visited: rest.to_vec(), left: None, index: None }),
        _ => None,
    }
}

pub fn enc_seq(seq: &[Call], term: Term) -> String {
    let mut s = String::new();
    for c in seq {
        match c {
            Call::Next => s.push_str("next,"),
            Call::NextBack => s.push_str("next_back,"),
            Call::Nth(n) => s.push_str(&format!("nth({}),", n)),
            Call::NthBack(n) => s.push_str(&format!("nth_back({}),", n)),
        }
    }
    if term != Term::None {
        s.push_str(&format!("{:?}", term));
    }
    s
}

/// Applies a call to the ideal sequence.
pub fn ideal_step(d: &mut VecDeque<Tok>, c: Call) -> Option<Tok> {
    match c {
        Call::Next => d.pop_front(),
        Call::NextBack => d.pop_back(),
        Call::Nth(n) => {
            let k = n.min(d.len());
            d.drain(..k);
            d.pop_front()
        }
        Call::NthBack(n) => {
            let k = n.min(d.len());
            let keep = d.len() - k;
            d.truncate(keep);
            d.pop_back()
        }
    }
}

/// All call sequences of length <= depth over `alphabet`, cut `extra` calls after the ideal
/// sequence is exhausted. Returns (maximal sequences, internal nodes = proper prefixes).
pub fn sequences(alphabet: &[Call], len0: usize, depth: usize, extra: usize) -> (Vec<Vec<Call>>, Vec<Vec<Call>>) {
    fn go(alphabet: &[Call], prefix: &mut Vec<Call>, rem: usize, after: usize, depth: usize, extra: usize, maxi: &mut Vec<Vec<Call>>, inner: &mut Vec<Vec<Call>>) {
        if prefix.len() == depth || after == extra {
            maxi.push(prefix.clone());
            return;
        }
        inner.push(prefix.clone());
        for &c in alphabet {
            let nrem = match c {
                Call::Next | Call::NextBack => rem.saturating_sub(1),
                Call::Nth(n) | Call::NthBack(n) => rem.saturating_sub(n.saturating_add(1)),
            };
            let nafter = if rem == 0 { after + 1 } else { after };
            prefix.push(c);
            go(alphabet, prefix, nrem, nafter, depth, extra, maxi, inner);
            prefix.pop();
        }
    }
    let mut maxi = Vec::new();
    let mut inner = Vec::new();
    go(alphabet, &mut Vec::new(), len0, 0, depth, extra, &mut maxi, &mut inner);
    (maxi, inner)
}

/// Runs one sequence (+ optional terminal) on the real iterator and compares every result with
/// the ideal sequence. `tok` reduces an item to a token (and may write through it). `obs` is
/// called after construction and after every call with the iterator, the ideal remainder and the
/// number of calls made so far.
/// Returns the tokens yielded in order (for write-through verification).
pub fn run_sequence<I, T, O>(mut it: I, seq: &[Call], term: Term, ideal0: &[Tok], mut tok: T, mut obs: O, cs: &mut Case) -> Vec<Tok>
where
    I: DoubleEndedIterator + ExactSizeIterator,
    T: FnMut(I::Item) -> Tok,
    O: FnMut(&mut I, &VecDeque<Tok>, usize, &mut Case),
{
    let mut ideal: VecDeque<Tok> = ideal0.iter().copied().collect();
    let mut yielded: Vec<Tok> = Vec::new();
    let mut check_sizes = |it: &I, ideal: &VecDeque<Tok>, cs: &mut Case, at: &str| {
        let l = it.len();
        if l != ideal.len() {
            cs.fail("iter:len", format!("{}: len() = {} but the ideal sequence has {} left", at, l, ideal.len()));
        }
        let h = it.size_hint();
        if h != (ideal.len(), Some(ideal.len())) {
            cs.fail("iter:size_hint", format!("{}: size_hint() = {:?} but the ideal sequence has {} left", at, h, ideal.len()));
        }
    };
    check_sizes(&it, &ideal, cs, "fresh iterator");
    obs(&mut it, &ideal, 0, cs);
    for (k, c) in seq.iter().enumerate() {
        let got = match c {
            Call::Next => it.next(),
            Call::NextBack => it.next_back(),
            Call::Nth(n) => it.nth(*n),
            Call::NthBack(n) => it.nth_back(*n),
        }
        .map(&mut tok);
        let exp = ideal_step(&mut ideal, *c);
        if got != exp {
            cs.fail(
                &format!("iter:wrong-item:{}", match c {
                    Call::Next => "next",
                    Call::NextBack => "next_back",
                    Call::Nth(_) => "nth",
                    Call::NthBack(_) => "nth_back",
                }),
                format!("call #{} {:?} returned {:x?} but the ideal sequence gives {:x?}", k + 1, c, got, exp),
            );
            return yielded;
        }
        if let Some(t) = got {
            yielded.push(t);
        }
        check_sizes(&it, &ideal, cs, &format!("after call #{} {:?}", k + 1, c));
        if cs.failed() {
            return yielded;
        }
        obs(&mut it, &ideal, k + 1, cs);
    }
    cs.transitions = seq.len() as u64 + if term == Term::None { 0 } else { 1 };
    match term {
        Term::None => {}
        Term::Count => {
            let n = it.count();
            if n != ideal.len() {
                cs.fail("iter:count", format!("count() = {} but {} items are left", n, ideal.len()));
            }
        }
        Term::Last => {
            let got = it.last().map(&mut tok);
            let exp = ideal.back().copied();
            if got != exp {
                cs.fail("iter:last", format!("last() = {:x?}, expected {:x?}", got, exp));
            }
            if let Some(t) = got {
                yielded.push(t);
            }
        }
        Term::Fold | Term::ForEach => {
            let mut got: Vec<Tok> = Vec::new();
            if term == Term::Fold {
                it.fold((), |_, x| got.push(tok(x)));
            } else {
                it.for_each(|x| got.push(tok(x)));
            }
            let exp: Vec<Tok> = ideal.iter().copied().collect();
            if got != exp {
                cs.fail("iter:fold", format!("{:?} visited {:x?}, expected {:x?}", term, got, exp));
            }
            yielded.extend(got);
        }
        Term::Rfold => {
            let mut got: Vec<Tok> = Vec::new();
            it.rfold((), |_, x| got.push(tok(x)));
            let exp: Vec<Tok> = ideal.iter().rev().copied().collect();
            if got != exp {
                cs.fail("iter:rfold", format!("rfold visited {:x?}, expected {:x?}", got, exp));
            }
            yielded.extend(got);
        }
        Term::RevThenFwd => {
            // take one from the back through the Rev adaptor, then drain forwards
            let mut got: Vec<Tok> = Vec::new();
            if let Some(x) = it.by_ref().rev().next() {
                got.push(tok(x));
            }
            for x in it {
                got.push(tok(x));
            }
            let mut exp: Vec<Tok> = Vec::new();
            if let Some(b) = ideal.pop_back() {
                exp.push(b);
            }
            exp.extend(ideal.iter().copied());
            if got != exp {
                cs.fail("iter:rev-then-forward", format!("rev().next() then forwards visited {:x?}, expected {:x?}", got, exp));
            }
            yielded.extend(got);
        }
        Term::SkipStep => {
            let got: Vec<Tok> = it.skip(1).step_by(2).map(&mut tok).collect();
            let exp: Vec<Tok> = ideal.iter().skip(1).step_by(2).copied().collect();
            if got != exp {
                cs.fail("iter:skip-step_by", format!("skip(1).step_by(2) visited {:x?}, expected {:x?}", got, exp));
            }
            yielded.extend(got);
        }
        Term::RevSkip => {
            let got: Vec<Tok> = it.rev().skip(1).map(&mut tok).collect();
            let exp: Vec<Tok> = ideal.iter().rev().skip(1).copied().collect();
            if got != exp {
                cs.fail("iter:rev-skip", format!("rev().skip(1) visited {:x?}, expected {:x?}", got, exp));
            }
            yielded.extend(got);
        }
        Term::FindNone => {
            let mut seen: Vec<Tok> = Vec::new();
            let found = it.by_ref().map(&mut tok).find(|t| {
                seen.push(*t);
                false
            });
            let exp: Vec<Tok> = ideal.iter().copied().collect();
            if found.is_some() || seen != exp {
                cs.fail("iter:find", format!("find(|_| false) visited {:x?}, expected {:x?}", seen, exp));
            }
            if it.len() != 0 || it.next().is_some() {
                cs.fail("iter:find", "the iterator is not exhausted after find(|_| false)".into());
            }
            yielded.extend(seen);
        }
        Term::FindAt(_) | Term::RfindAt(_) | Term::PositionAt(_) | Term::RpositionAt(_) | Term::All | Term::Any | Term::Collect => {
            let rest: Vec<Tok> = ideal.iter().copied().collect();
            let exp = jump_ideal(term, &rest).unwrap();
            let mut seen: Vec<Tok> = Vec::new();
            let mut shown = 0usize;
            let mut index: Option<Option<usize>> = None;
            let mut left: Option<Vec<Tok>> = None;
            let mut rest_of = |it: &mut I, tok: &mut T, cs: &mut Case| -> Vec<Tok> {
                let l = it.len();
                let v: Vec<Tok> = it.map(|x| tok(x)).collect();
                if l != v.len() {
                    cs.fail("iter:len", format!("after {:?}: len() = {} but {} items followed", term, l, v.len()));
                }
                v
            };
            match term {
                Term::FindAt(k) => {
                    let f = it.find(|_| {
                        shown += 1;
                        shown == k as usize + 1
                    });
                    index = Some(f.as_ref().map(|_| k as usize));
                    seen.extend(f.map(&mut tok));
                    left = Some(rest_of(&mut it, &mut tok, cs));
                }
                Term::RfindAt(k) => {
                    let f = it.rfind(|_| {
                        shown += 1;
                        shown == k as usize + 1
                    });
                    index = Some(f.as_ref().map(|_| rest.len().wrapping_sub(1 + k as usize)));
                    seen.extend(f.map(&mut tok));
                    left = Some(rest_of(&mut it, &mut tok, cs));
                }
                Term::PositionAt(k) => {
                    index = Some(it.position(|x| {
                        seen.push(tok(x));
                        seen.len() == k as usize + 1
                    }));
                    left = Some(rest_of(&mut it, &mut tok, cs));
                }
                Term::RpositionAt(k) => {
                    index = Some(it.rposition(|x| {
                        seen.push(tok(x));
                        seen.len() == k as usize + 1
                    }));
                    left = Some(rest_of(&mut it, &mut tok, cs));
                }
                Term::All => {
                    let r = it.all(|x| {
                        seen.push(tok(x));
                        true
                    });
                    if !r {
                        cs.fail("iter:all", "all(|_| true) returned false".into());
                    }
                    left = Some(rest_of(&mut it, &mut tok, cs));
                }
                Term::Any => {
                    let r = it.any(|x| {
                        seen.push(tok(x));
                        false
                    });
                    if r {
                        cs.fail("iter:any", "any(|_| false) returned true".into());
                    }
                    left = Some(rest_of(&mut it, &mut tok, cs));
                }
                Term::Collect => {
                    let v: Vec<I::Item> = it.collect();
                    seen.extend(v.into_iter().map(&mut tok));
                }
                _ => unreachable!(),
            }
            if seen != exp.visited || (exp.index.is_some() && index != exp.index) || left != exp.left {
                cs.fail(
                    "iter:find-position",
                    format!("{:?}: saw {:x?} result {:?} left {:x?}; expected {:x?} result {:?} left {:x?}", term, seen, index, left, exp.visited, exp.index, exp.left),
                );
            }
            yielded.extend(seen);
            yielded.extend(left.unwrap_or_default());
        }
    }
    yielded
}

/// Standard alphabet: next, next_back, nth(n), nth_back(n) for the given n values.
pub fn alphabet(ns: &[usize]) -> Vec<Call> {
    let mut v = vec![Call::Next, Call::NextBack];
    for &n in ns {
        v.push(Call::Nth(n));
    }
    for &n in ns {
        v.push(Call::NthBack(n));
    }
    v
}

/// Guards a whole sequence run; a panic inside an iterator method is a violation.
pub fn guarded_run(cs: &mut Case, f: impl FnOnce(&mut Case)) {
    let r = guarded(|| f(cs));
    if let Err(m) = r {
        cs.fail("iter:panic", format!("an iterator method panicked: {}", m));
    }
}
