//! C14 - copy operations transfer exactly the source cells (bounded-exhaustive, model-based).

use toodee::{TooDee, TooDeeOps};

use super::ops::{apply_op, src_slice, Op};
use super::recv::{diff_parent, model_of_kt, parent_kt, receivers, splice, Recv};
use crate::engine::util::{huge_fixed, Model};
use crate::engine::{guarded, Case, Ctx, Profile, Prop, Tier};
use crate::with_recv;

pub struct C14P;
pub static C14: C14P = C14P;

fn n_for(t: Tier) -> usize {
    t.pick(4, 6)
}

impl Prop for C14P {
    fn id(&self) -> &'static str {
        "C14"
    }
    fn level(&self) -> &'static str {
        "exploration"
    }
    fn profiles(&self, _tier: Tier) -> Vec<Profile> {
        vec![Profile::Chk, Profile::Wrap]
    }
    fn units(&self, tier: Tier) -> Vec<String> {
        let n = n_for(tier);
        let parents: Vec<(usize, usize)> = match tier {
            Tier::Quick => vec![(n, n)],
            Tier::Thorough => vec![(n, n), (2, n), (n, 2), (6, 3)],
        };
        let mut v = Vec::new();
        for r in receivers(n, true, super::recv::Nest::No, &parents) {
            v.push(format!("{} from", r.enc()));
            v.push(format!("{} within", r.enc()));
        }
        // lines of 9 and 17 cells (beyond the block sizes of chunked or unrolled copies), owned and as windows
        for rd in long_line_receivers() {
            v.push(format!("{} from", rd.enc()));
            if rd.size().0 * rd.size().1 <= 20 {
                v.push(format!("{} within", rd.enc()));
            }
        }
        for (c, r) in crate::engine::util::shapes(3) {
            v.push(format!("zst {}x{} x", c, r));
            if c > 0 {
                v.push(format!("survivors {}x{} x", c, r));
            }
        }
        v
    }
    fn run_unit(&self, unit: &str, ctx: &mut Ctx) {
        if let Some(rest) = unit.strip_prefix("zst ") {
            let dims = rest.split(' ').next().unwrap();
            let (c, r) = dims.split_once('x').unwrap();
            let (c, r): (usize, usize) = (c.parse().unwrap(), r.parse().unwrap());
            let ops: Vec<Op> = super::ops::ops_for(c, r, 3)
                .into_iter()
                .filter(|o| matches!(o, Op::CopyFromSlice(..) | Op::CloneFromSlice(..) | Op::CopyFromToodee(..) | Op::CloneFromToodee(..) | Op::CopyWithin(..)))
                .collect();
            super::ops::zst_panic_differential(c, r, &ops, ctx);
            return;
        }
        if let Some(rest) = unit.strip_prefix("survivors ") {
            let dims = rest.split(' ').next().unwrap();
            let (c, r) = dims.split_once('x').unwrap();
            run_survivors(c.parse().unwrap(), r.parse().unwrap(), ctx);
            return;
        }
        let (r, what) = unit.rsplit_once(' ').unwrap();
        let rd = Recv::parse(r);
        if what == "from" {
            run_from(&rd, ctx);
        } else {
            run_within(&rd, ctx);
        }
    }
    fn rule(&self) -> String {
        "destinations: owned arrays of every shape, every window (including empty ones placed anywhere) of the listed parents as TooDeeViewMut, and third-party implementors relying on the trait defaults. \
         copy_from_slice / clone_from_slice from slices of every length 0..=N^2+1: length == area => the destination holds the slice in row-major order and nothing else changed, otherwise panic and nothing changed. \
         copy_from_toodee / clone_from_toodee from owned, strided-view, view_mut and directly built (over a longer slice) sources of every shape: equal size => copied, different size (e.g. (2,3) vs (3,2)) => panic. \
         copy_within for every source rectangle with corners in 0..=dim+1 and every destination corner in (0..=dim+1)^2 plus huge components: fits => the destination rectangle equals the source rectangle's PRIOR contents (model copies through a temporary; every overlap direction and the identical placement occur) and all other cells, including the parent outside a window, are unchanged; does not fit or corners reversed => panic and nothing changed. \
         Owned destinations reached through a history: every array of owning elements (shapes up to 3x3) that survives an operation in which the k-th call into caller code panicked and was caught (every operation instance, every k, and the fault-free runs) must accept clone_from_slice / clone_from_toodee of exactly num_cols*num_rows cells (and then hold them in row-major order) and reject one cell more or fewer. \
         Arrays and windows of the zero-sized () must accept and reject exactly the same arguments as arrays of ordinary elements. A case is (destination, operation, arguments); non-trivial = accepted call on a non-empty destination; distinct by the tuple."
            .into()
    }
    fn bound(&self, tier: Tier) -> String {
        format!("N = {}", n_for(tier))
    }
}

/// Receivers with lines of 9 and 17 cells.
fn long_line_receivers() -> Vec<Recv> {
    vec![Recv::owned(9, 2), Recv::owned(2, 9), Recv::owned(17, 1), Recv::owned(1, 17), Recv::window(11, 3, (1, 0), (10, 2)), Recv::window(11, 2, (2, 0), (11, 2)), Recv::foreign_owned(9, 2)]
}

fn judge(cs: &mut Case, op: &str, valid: bool, res: &Result<(), String>, diff: Option<String>) {
    match (valid, res) {
        (true, Ok(())) => {
            cs.outcome("copied");
            if let Some(d) = diff {
                cs.fail(&format!("{}:wrong-effect", op), d);
            }
        }
        (true, Err(m)) => {
            cs.outcome("spurious-panic");
            cs.fail(&format!("{}:panics-on-valid", op), format!("valid arguments but the call panicked: {}", m));
        }
        (false, Err(_)) => {
            cs.outcome("rejected");
            if let Some(d) = diff {
                cs.fail(&format!("{}:rejected-but-modified", op), d);
            }
        }
        (false, Ok(())) => {
            cs.outcome("accepted-invalid");
            cs.fail(&format!("{}:accepts-invalid", op), format!("invalid arguments but the call returned{}", diff.map(|d| format!(" ({})", d)).unwrap_or_default()));
        }
    }
}

fn run_one(rd: &Recv, op: Op, name: &'static str, valid: bool, expect_window: impl FnOnce(&Model<(u8, u16)>) -> Model<(u8, u16)>, ctx: &mut Ctx) {
    let rd = *rd;
    let rect = rd.rect();
    let nonempty = rd.size().0 > 0;
    ctx.case(
        || format!("{} {:?}", rd.enc(), op),
        |cs| {
            let mut p: TooDee<_> = parent_kt(rd.pc, rd.pr);
            let before = model_of_kt(&p);
            let res = guarded(|| with_recv!(p, rd, |x| { apply_op(x, &op) }));
            let expect = if valid { splice(&before, rect, &expect_window(&before.window(rect.0, rect.1))) } else { before.clone() };
            if valid && nonempty {
                cs.nontrivial((rd, &op));
            }
            judge(cs, name, valid, &res, diff_parent(&p, &expect));
            let _ = p.size();
        },
    );
}

fn run_from(rd: &Recv, ctx: &mut Ctx) {
    let (c, r) = rd.size();
    let n = n_for(ctx.tier);
    let from_flat = |flat: Vec<super::recv::Kt>| move |_: &Model<(u8, u16)>| Model::from_flat(c, r, &flat.iter().map(|k| (k.key, k.tag)).collect::<Vec<_>>());
    for len in 0..=(n * n).max(c * r) + 1 {
        let valid = len == c * r;
        run_one(rd, Op::CopyFromSlice(len), "copy_from_slice", valid, from_flat(src_slice(c * r)), ctx);
        run_one(rd, Op::CloneFromSlice(len), "clone_from_slice", valid, from_flat(src_slice(c * r)), ctx);
    }
    let mut src_shapes = crate::engine::util::shapes(n);
    if !src_shapes.contains(&(c, r)) {
        src_shapes.extend([(c, r), (r, c), (c + 1, r), (c, r + 1), (c - 1, r)]);
    }
    for (sc, sr) in src_shapes {
        for k in 0..4u8 {
            let valid = (sc, sr) == (c, r);
            run_one(rd, Op::CopyFromToodee(k, sc, sr), "copy_from_toodee", valid, from_flat(src_slice(c * r)), ctx);
            run_one(rd, Op::CloneFromToodee(k, sc, sr), "clone_from_toodee", valid, from_flat(src_slice(c * r)), ctx);
        }
    }
}

fn run_within(rd: &Recv, ctx: &mut Ctx) {
    let (c, r) = rd.size();
    let mut tuples: Vec<((usize, usize), (usize, usize), (usize, usize))> = Vec::new();
    for x1 in 0..=c + 1 {
        for y1 in 0..=r + 1 {
            for x2 in 0..=c + 1 {
                for y2 in 0..=r + 1 {
                    for dx in 0..=c + 1 {
                        for dy in 0..=r + 1 {
                            tuples.push(((x1, y1), (x2, y2), (dx, dy)));
                        }
                    }
                }
            }
        }
    }
    for h in huge_fixed() {
        tuples.push(((0, 0), (1.min(c), 1.min(r)), (h, 0)));
        tuples.push(((0, 0), (1.min(c), 1.min(r)), (0, h)));
        tuples.push(((0, 0), (c, r), (h, h)));
        tuples.push(((0, 0), (h, r), (0, 0)));
        tuples.push(((h, 0), (h, r), (0, 0)));
        tuples.push(((0, h), (c, h), (0, 0)));
    }
    for (a, b, d) in tuples {
        let valid = a.0 <= b.0 && a.1 <= b.1 && b.0 <= c && b.1 <= r && d.0.checked_add(b.0 - a.0).map_or(false, |x| x <= c) && d.1.checked_add(b.1 - a.1).map_or(false, |y| y <= r);
        run_one(
            rd,
            Op::CopyWithin(a, b, d),
            "copy_within",
            valid,
            move |w: &Model<(u8, u16)>| {
                let mut m = w.clone();
                for y in 0..(b.1 - a.1) {
                    for x in 0..(b.0 - a.0) {
                        m.cells[d.1 + y][d.0 + x] = w.cells[a.1 + y][a.0 + x];
                    }
                }
                m
            },
            ctx,
        );
    }
}

/// Owned destinations that survived a caught panic in caller code (or a fault-free operation).
fn run_survivors(c: usize, r: usize, ctx: &mut Ctx) {
    use crate::engine::ledger::Tracked;
    use toodee::CopyOps;
    super::c11::for_each_survivor(c, r, ctx, &mut |mut t: TooDee<Tracked>, what: &str, cs: &mut Case| {
        let (nc, nr) = (t.num_cols(), t.num_rows());
        let area = match nc.checked_mul(nr) {
            Some(a) if a <= 64 => a,
            _ => {
                std::mem::forget(t);
                return;
            }
        };
        let src = |n: usize| -> Vec<Tracked> { (0..n).map(|i| Tracked::new(700 + i as u32)).collect() };
        let labels = |t: &TooDee<Tracked>| -> Vec<u32> { t.data().iter().map(|e| e.label).collect() };
        let want: Vec<u32> = (0..area).map(|i| 700 + i as u32).collect();
        for (name, n) in [("clone_from_slice (one cell short)", area.wrapping_sub(1)), ("clone_from_slice (one cell more)", area + 1)] {
            if n > 65 {
                continue;
            }
            let s = src(n);
            if guarded(|| t.clone_from_slice(&s)).is_ok() {
                cs.fail("clone_from_slice:accepts-invalid", format!("{}: {} cells offered to a ({},{}) destination and the call returned ({})", what, n, nc, nr, name));
            }
        }
        let s = src(area);
        match guarded(|| t.clone_from_slice(&s)) {
            Err(m) => cs.fail("clone_from_slice:panics-on-valid", format!("{}: exactly {} cells offered to a ({},{}) destination but the call panicked: {}", what, area, nc, nr, m)),
            Ok(()) => {
                if t.size() != (nc, nr) || labels(&t) != want {
                    cs.fail("clone_from_slice:wrong-effect", format!("{}: after clone_from_slice the ({},{}) destination has size {:?} and holds {:?}", what, nc, nr, t.size(), labels(&t)));
                }
            }
        }
        if (nc == 0) == (nr == 0) {
            let source: TooDee<Tracked> = TooDee::from_vec(nc, nr, src(area));
            match guarded(|| t.clone_from_toodee(&source)) {
                Err(m) => cs.fail("clone_from_toodee:panics-on-valid", format!("{}: a source of the destination's size ({},{}) but the call panicked: {}", what, nc, nr, m)),
                Ok(()) => {
                    if t.size() != (nc, nr) || labels(&t) != want {
                        cs.fail("clone_from_toodee:wrong-effect", format!("{}: after clone_from_toodee the ({},{}) destination has size {:?} and holds {:?}", what, nc, nr, t.size(), labels(&t)));
                    }
                }
            }
        }
        if t.num_cols().checked_mul(t.num_rows()) != Some(t.data().len()) {
            std::mem::forget(t);
        }
    });
}
