//! C19 - deserialisation accepts only consistent documents and never panics. Documents are
//! generated from a grammar and enumerated completely up to the member-count bound.

use serde::de::DeserializeOwned;
use serde_json::Value;
use toodee::{TooDee, TooDeeOps};

use crate::engine::{guarded, Case, Ctx, Profile, Prop, Tier};

pub struct C19P;
pub static C19: C19P = C19P;

/// Dimension values: (JSON text, the usize it denotes if it is a valid usize).
fn dim_values(extended: bool) -> Vec<(&'static str, Option<usize>)> {
    let mut v = vec![
        ("0", Some(0)),
        ("1", Some(1)),
        ("2", Some(2)),
        ("3", Some(3)),
        ("4294967296", Some(1usize << 32)),
        ("18446744073709551615", Some(usize::MAX)),
        ("18446744073709551616", None),
        ("-1", None),
        ("1.5", None),
        // a whole but negative float: never a dimension
        ("-1.0", None),
        // lenient parsers may read these as 2; if the document is accepted at all, 2 is what it states
        ("\"2\"", Some(2)),
        ("null", None),
    ];
    if extended {
        v.push(("9223372036854775808", Some(1usize << 63)));
        v.push(("true", None));
        v.push(("[]", None));
        v.push(("2.0", Some(2)));
    }
    v
}

trait El: DeserializeOwned + PartialEq + std::fmt::Debug + Clone {
    const NAME: &'static str;
    fn make(i: usize) -> Self;
    fn json(&self) -> String;
    fn wrong() -> Vec<&'static str>;
}
impl El for u32 {
    const NAME: &'static str = "u32";
    fn make(i: usize) -> u32 {
        i as u32 * 10 + 1
    }
    fn json(&self) -> String {
        self.to_string()
    }
    fn wrong() -> Vec<&'static str> {
        vec!["\"a\"", "1.5", "-1", "null", "4294967296"]
    }
}
impl El for String {
    const NAME: &'static str = "String";
    fn make(i: usize) -> String {
        format!("s{}", i)
    }
    fn json(&self) -> String {
        format!("\"{}\"", self)
    }
    fn wrong() -> Vec<&'static str> {
        vec!["1", "null", "[]"]
    }
}

impl El for () {
    const NAME: &'static str = "()";
    fn make(_: usize) {}
    fn json(&self) -> String {
        "null".into()
    }
    fn wrong() -> Vec<&'static str> {
        vec!["1", "\"a\"", "[]"]
    }
}

/// Data options around product `p`: (JSON text, the element vector it denotes if valid).
fn data_values<E: El>(p: usize) -> Vec<(String, Option<Vec<E>>)> {
    let mut lens: Vec<usize> = vec![p.saturating_sub(1), p, p + 1, 0];
    lens.sort_unstable();
    lens.dedup();
    let arr = |n: usize| -> (String, Option<Vec<E>>) {
        let v: Vec<E> = (0..n).map(E::make).collect();
        (format!("[{}]", v.iter().map(|e| e.json()).collect::<Vec<_>>().join(",")), Some(v))
    };
    let mut out: Vec<(String, Option<Vec<E>>)> = lens.into_iter().map(arr).collect();
    for w in E::wrong() {
        // an array of the right length with one wrong-typed element (at least one element)
        let n = p.max(1);
        let mut parts: Vec<String> = (0..n).map(|i| E::make(i).json()).collect();
        parts[n / 2] = w.to_string();
        out.push((format!("[{}]", parts.join(",")), None));
    }
    for non in ["5", "\"x\"", "null", "{}"] {
        out.push((non.to_string(), None));
    }
    out
}

#[derive(Clone, Copy, PartialEq, Eq, Debug)]
enum Kind {
    C,
    R,
    D,
    U,
}

fn kind_seqs(max: usize) -> Vec<Vec<Kind>> {
    let mut out: Vec<Vec<Kind>> = vec![Vec::new()];
    let mut frontier: Vec<Vec<Kind>> = vec![Vec::new()];
    for _ in 0..max {
        let mut next = Vec::new();
        for s in &frontier {
            for k in [Kind::C, Kind::R, Kind::D, Kind::U] {
                let mut t = s.clone();
                t.push(k);
                next.push(t);
            }
        }
        out.extend(next.iter().cloned());
        frontier = next;
    }
    out
}

struct Doc<E> {
    text: String,
    cols: Vec<usize>,
    rows: Vec<usize>,
    datas: Vec<Vec<E>>,
}

fn check_doc<E: El>(doc: &Doc<E>, cs: &mut Case) {
    for transport in 0..5 {
        let name = ["from_str", "from_slice", "from_reader", "from_value", "deserialize_in_place"][transport];
        let r: Result<Result<TooDee<E>, String>, String> = guarded(|| match transport {
            0 => serde_json::from_str::<TooDee<E>>(&doc.text).map_err(|e| e.to_string()),
            1 => serde_json::from_slice::<TooDee<E>>(doc.text.as_bytes()).map_err(|e| e.to_string()),
            2 => serde_json::from_reader::<_, TooDee<E>>(std::io::Cursor::new(doc.text.as_bytes())).map_err(|e| e.to_string()),
            3 => match serde_json::from_str::<Value>(&doc.text) {
                Ok(v) => serde_json::from_value::<TooDee<E>>(v).map_err(|e| e.to_string()),
                Err(e) => Err(format!("(document is not a JSON value: {})", e)),
            },
            _ => {
                // Deserialize::deserialize_in_place into an array that already holds six other cells: whatever is
                // accepted must come from the document, not from what was there before
                let mut place: TooDee<E> = TooDee::from_vec(2, 3, (0..6).map(|i| E::make(900 + i)).collect());
                let mut de = serde_json::Deserializer::from_str(&doc.text);
                match serde::Deserialize::deserialize_in_place(&mut de, &mut place) {
                    Ok(()) => de.end().map(|_| place).map_err(|e| e.to_string()),
                    Err(e) => Err(e.to_string()),
                }
            }
        });
        match r {
            Err(p) => {
                cs.fail("deserialize:panic", format!("{} panicked on {}: {}", name, doc.text, p));
            }
            Ok(Err(_)) => {}
            Ok(Ok(t)) => {
                cs.outcome("accepted");
                let (nc, nr) = t.size();
                if nc.checked_mul(nr) != Some(t.data().len()) || (nc == 0) != (nr == 0) {
                    cs.fail("deserialize:invalid-array", format!("{} accepted {} as size ({},{}) with {} cells", name, doc.text, nc, nr, t.data().len()));
                    std::mem::forget(t);
                    continue;
                }
                if !doc.cols.contains(&nc) || !doc.rows.contains(&nr) {
                    cs.fail("deserialize:dims-not-stated", format!("{} on {}: size ({},{}) is not what the document states", name, doc.text, nc, nr));
                }
                if !doc.datas.iter().any(|d| d[..] == *t.data()) {
                    cs.fail("deserialize:data-not-stated", format!("{} on {}: cells {:?} are not a data member of the document", name, doc.text, t.data()));
                }
            }
        }
    }
}

fn run_seq<E: El>(seq: &[Kind], extended: bool, ctx: &mut Ctx) {
    let dims = dim_values(extended);
    let nc = seq.iter().filter(|k| **k == Kind::C).count();
    let nr = seq.iter().filter(|k| **k == Kind::R).count();
    let nd = seq.iter().filter(|k| **k == Kind::D).count();
    // enumerate assignments: dimension values for every C and R member, then data options
    let ndim = nc + nr;
    let mut dim_choice = vec![0usize; ndim];
    loop {
        // product from the first stated C and R if both are small
        let mut ci = 0;
        let mut first_c: Option<usize> = None;
        let mut first_r: Option<usize> = None;
        {
            let mut di = 0;
            for k in seq {
                match k {
                    Kind::C => {
                        if first_c.is_none() {
                            first_c = dims[dim_choice[di]].1;
                        }
                        di += 1;
                    }
                    Kind::R => {
                        if first_r.is_none() {
                            first_r = dims[dim_choice[di]].1;
                        }
                        di += 1;
                    }
                    _ => {}
                }
            }
            let _ = &mut ci;
        }
        let p = match (first_c, first_r) {
            (Some(a), Some(b)) if a <= 3 && b <= 3 => a * b,
            _ => 0,
        };
        let dvals = data_values::<E>(p);
        let mut data_choice = vec![0usize; nd];
        loop {
            // build the document
            let mut parts: Vec<String> = Vec::new();
            let mut doc: Doc<E> = Doc { text: String::new(), cols: Vec::new(), rows: Vec::new(), datas: Vec::new() };
            let (mut di, mut dd) = (0, 0);
            for k in seq {
                match k {
                    Kind::C => {
                        let (t, v) = dims[dim_choice[di]];
                        di += 1;
                        parts.push(format!("\"num_cols\":{}", t));
                        if let Some(v) = v {
                            doc.cols.push(v);
                        }
                    }
                    Kind::R => {
                        let (t, v) = dims[dim_choice[di]];
                        di += 1;
                        parts.push(format!("\"num_rows\":{}", t));
                        if let Some(v) = v {
                            doc.rows.push(v);
                        }
                    }
                    Kind::D => {
                        let (t, v) = &dvals[data_choice[dd]];
                        dd += 1;
                        parts.push(format!("\"data\":{}", t));
                        if let Some(v) = v {
                            doc.datas.push(v.clone());
                        }
                    }
                    Kind::U => parts.push("\"extra\":1".to_string()),
                }
            }
            doc.text = format!("{{{}}}", parts.join(","));
            let text = doc.text.clone();
            ctx.case(
                || format!("TooDee<{}> from {}", E::NAME, text),
                |cs| {
                    cs.outcome("rejected");
                    check_doc(&doc, cs);
                    // non-trivial: documents that state all three fields at least once
                    if nc > 0 && nr > 0 && nd > 0 {
                        cs.nontrivial((E::NAME, &doc.text));
                    }
                },
            );
            // next data assignment
            let mut i = 0;
            loop {
                if i == nd {
                    break;
                }
                data_choice[i] += 1;
                if data_choice[i] < dvals.len() {
                    break;
                }
                data_choice[i] = 0;
                i += 1;
            }
            if i == nd {
                break;
            }
        }
        // next dimension assignment
        let mut i = 0;
        loop {
            if i == ndim {
                break;
            }
            dim_choice[i] += 1;
            if dim_choice[i] < dims.len() {
                break;
            }
            dim_choice[i] = 0;
            i += 1;
        }
        if i == ndim {
            break;
        }
    }
}

/// Unknown members with awkward names and values, at every position of an otherwise consistent document:
/// names of every byte length 0..=70 (ASCII, and with a 2-, 3- or 4-byte character or an escape straddling
/// every byte offset), near-misses of the real field names, values of every JSON type including nested ones.
fn run_unknown<E: El>(ctx: &mut Ctx) {
    let mut names: Vec<String> = Vec::new();
    for p in 0..=70usize {
        names.push("a".repeat(p));
        for ch in ["\\u00e9", "\\u20ac", "\\ud83d\\ude00", "\u{e9}", "\u{20ac}", "\u{1f600}"] {
            for q in [0usize, 40] {
                names.push(format!("{}{}{}", "a".repeat(p), ch, "b".repeat(q)));
            }
        }
    }
    for n in ["num_col", "num_cols ", "NUM_COLS", "num_rows\\u0000", "dat", "data ", "\\\"data\\\"", "\\\\", "num_cols\\u0000num_rows"] {
        names.push(n.to_string());
    }
    let values = ["1", "\"x\"", "null", "[1,[2,[3]]]", "{\"a\":{\"num_cols\":[1]}}", "1e400", "-0.0"];
    let one = E::make(0);
    let members = ["\"num_cols\":1".to_string(), "\"num_rows\":1".to_string(), format!("\"data\":[{}]", one.json())];
    for name in &names {
        for (vi, value) in values.iter().enumerate() {
            // every value for the short names and the names around 32 bytes, the first value for every name
            if vi > 0 && name.len() > 3 && !(31..=36).contains(&name.len()) {
                continue;
            }
            for pos in 0..=3usize {
                let mut parts: Vec<String> = members.to_vec();
                parts.insert(pos, format!("\"{}\":{}", name, value));
                let text = format!("{{{}}}", parts.join(","));
                let doc: Doc<E> = Doc { text: text.clone(), cols: vec![1], rows: vec![1], datas: vec![vec![one.clone()]] };
                ctx.case(
                    || format!("TooDee<{}> from {}", E::NAME, text),
                    |cs| {
                        cs.outcome("rejected");
                        cs.nontrivial((E::NAME, &doc.text));
                        check_doc(&doc, cs);
                    },
                );
            }
        }
    }
}

fn run_toplevel<E: El>(ctx: &mut Ctx) {
    for text in ["[2,3,[1,2,3,4,5,6]]", "[]", "5", "\"x\"", "null", "true", "", "{", "{\"num_cols\":", "{\"num_cols\":1,\"num_rows\":1,\"data\":[1]", "[{\"num_cols\":0,\"num_rows\":0,\"data\":[]}]", "{\"num_cols\":1,\"num_rows\":1,\"data\":[1]} trailing"] {
        let doc: Doc<E> = Doc { text: text.to_string(), cols: Vec::new(), rows: Vec::new(), datas: Vec::new() };
        ctx.case(
            || format!("TooDee<{}> from non-object document {:?}", E::NAME, text),
            |cs| {
                cs.outcome("rejected");
                cs.nontrivial((E::NAME, text));
                check_doc(&doc, cs);
            },
        );
    }
}

impl Prop for C19P {
    fn id(&self) -> &'static str {
        "C19"
    }
    fn level(&self) -> &'static str {
        "exploration"
    }
    fn profiles(&self, _tier: Tier) -> Vec<Profile> {
        vec![Profile::Chk, Profile::Rel]
    }
    fn units(&self, tier: Tier) -> Vec<String> {
        let max = tier.pick(4, 5);
        let mut v = Vec::new();
        for e in ["u32", "String", "unit"] {
            for s in kind_seqs(max) {
                let code: String = s.iter().map(|k| format!("{:?}", k)).collect();
                v.push(format!("{} seq:{}", e, code));
                if tier == Tier::Thorough && s.len() <= 4 {
                    v.push(format!("{} seq:{}+", e, code));
                }
            }
            v.push(format!("{} toplevel", e));
            v.push(format!("{} unknown", e));
        }
        v
    }
    fn run_unit(&self, unit: &str, ctx: &mut Ctx) {
        let (e, rest) = unit.split_once(' ').unwrap();
        if rest == "toplevel" {
            match e {
                "u32" => run_toplevel::<u32>(ctx),
                "unit" => run_toplevel::<()>(ctx),
                _ => run_toplevel::<String>(ctx),
            }
            return;
        }
        if rest == "unknown" {
            match e {
                "u32" => run_unknown::<u32>(ctx),
                "unit" => run_unknown::<()>(ctx),
                _ => run_unknown::<String>(ctx),
            }
            return;
        }
        let code = rest.strip_prefix("seq:").unwrap();
        let extended = code.ends_with('+');
        let code = code.trim_end_matches('+');
        let seq: Vec<Kind> = code
            .chars()
            .map(|c| match c {
                'C' => Kind::C,
                'R' => Kind::R,
                'D' => Kind::D,
                _ => Kind::U,
            })
            .collect();
        match e {
            "u32" => run_seq::<u32>(&seq, extended, ctx),
            "unit" => run_seq::<()>(&seq, extended, ctx),
            _ => run_seq::<String>(&seq, extended, ctx),
        }
    }
    fn rule(&self) -> String {
        "documents are JSON objects whose member list is ANY sequence (every subset, order and duplication) of up to L members drawn from num_cols:V, num_rows:V, data:D and an unknown member; additionally an unknown member whose name has every byte length 0..=70 (ASCII, or with a 2-/3-/4-byte character, literal or escaped, at every offset) or nearly equals a field name, with values of every JSON type (nested ones too), inserted at every position of a consistent document; \
         V = {0,1,2,3,2^32,2^64-1,2^64,-1,1.5,-1.0,\"2\",null} (thorough repeats all documents of up to 4 members with 2^63, true, [], 2.0 added); D = arrays of every length in {p-1,p,p+1,0} around the stated product p, arrays with one wrong-typed element, and non-arrays (5, \"x\", null, {}); element types u32, String and the zero-sized (); plus non-object and truncated top levels; \
         each document goes through all four transports (from_str, from_slice, from_reader, from_value). Oracle: no panic; Err, or Ok(t) where t satisfies the shape invariant, t's dimensions are values stated for those fields in the document and t's cells are a data member of the document (hence never an overflowing, mismatching or one-zero document). \
         A case is one document (x 4 transports); non-trivial = the document states all three fields; distinct by document text."
            .into()
    }
    fn bound(&self, tier: Tier) -> String {
        format!("all documents with up to {} members", tier.pick(4, 5))
    }
    fn assumptions(&self) -> Vec<String> {
        vec!["acceptance of well-formed documents is not demanded here (C18 does that); only serde_json is exercised".into()]
    }
}
