//! C13 - swap and fill primitives change exactly the named cells (bounded-exhaustive).

use toodee::{TooDeeOps, TooDeeOpsMut};

use super::recv::{diff_parent, model_of_kt, parent_kt, receivers, splice, Kt, Nest, Recv};
use crate::engine::util::{huge_fixed, huge_for_mul};
use crate::engine::{guarded, Ctx, Profile, Prop, Tier};
use crate::with_recv;

pub struct C13P;
pub static C13: C13P = C13P;

fn n_for(tier: Tier) -> usize {
    tier.pick(4, 7)
}

fn idx_values(dim: usize, with_huge: bool) -> Vec<usize> {
    let mut v: Vec<usize> = (0..=dim + 1).collect();
    if with_huge {
        v.extend(huge_fixed());
    }
    v
}

impl Prop for C13P {
    fn id(&self) -> &'static str {
        "C13"
    }
    fn level(&self) -> &'static str {
        "exploration"
    }
    fn profiles(&self, _tier: Tier) -> Vec<Profile> {
        vec![Profile::Chk, Profile::Wrap]
    }
    fn units(&self, tier: Tier) -> Vec<String> {
        let n = n_for(tier);
        let parents: Vec<(usize, usize)> = match tier {
            Tier::Quick => vec![(n, n), (1, n), (n, 1)],
            Tier::Thorough => vec![(n, n), (1, n), (n, 1), (2, 3), (3, 2)],
        };
        let mut v: Vec<String> = receivers(n, true, if tier == Tier::Thorough { Nest::All } else { Nest::Sample }, &parents).iter().map(|r| r.enc()).collect();
        // lines of 9 and 17 cells (beyond the block sizes of chunked or unrolled loops)
        for rd in [Recv::owned(9, 2), Recv::owned(2, 9), Recv::owned(17, 1), Recv::window(11, 3, (1, 0), (10, 2)), Recv::foreign_owned(9, 2), Recv::foreign_window(11, 3, (1, 1), (10, 3)), Recv::window(36, 3, (1, 0), (35, 3)), Recv::owned(34, 2), Recv::window(70, 2, (2, 0), (69, 2)), Recv::foreign_window(36, 2, (1, 0), (35, 2))] {
            v.push(rd.enc());
        }
        for (c, r) in crate::engine::util::shapes(3) {
            v.push(format!("zst {}x{}", c, r));
            if c > 0 {
                v.push(format!("faultfill {}x{}", c, r));
            }
        }
        for (c, r) in super::hugezst::shapes() {
            v.push(format!("hugezst {}x{}", c, r));
        }
        for (c, r) in [(1usize, 2usize), (2, 1), (2, 2), (3, 2), (2, 3), (3, 3)] {
            v.push(format!("owning {}x{}", c, r));
        }
        v
    }
    fn run_unit(&self, unit: &str, ctx: &mut Ctx) {
        if let Some(dims) = unit.strip_prefix("zst ") {
            let (c, r) = dims.split_once('x').unwrap();
            let (c, r): (usize, usize) = (c.parse().unwrap(), r.parse().unwrap());
            let ops: Vec<super::ops::Op> = super::ops::ops_for(c, r, 0)
                .into_iter()
                .filter(|o| matches!(o, super::ops::Op::Swap(..) | super::ops::Op::SwapRows(..) | super::ops::Op::SwapCols(..) | super::ops::Op::RowPairWrite(..) | super::ops::Op::Fill))
                .collect();
            super::ops::zst_panic_differential(c, r, &ops, ctx);
            return;
        }
        if let Some(dims) = unit.strip_prefix("owning ") {
            let (c, r) = super::hugezst::parse_shape(dims);
            run_owning(c, r, ctx);
            return;
        }
        if let Some(dims) = unit.strip_prefix("hugezst ") {
            let (c, r) = super::hugezst::parse_shape(dims);
            run_huge_zst(c, r, ctx);
            return;
        }
        if let Some(dims) = unit.strip_prefix("faultfill ") {
            let (c, r) = dims.split_once('x').unwrap();
            run_fault_fill(c.parse().unwrap(), r.parse().unwrap(), ctx);
            return;
        }
        let rd = Recv::parse(unit);
        run_receiver(&rd, ctx);
    }
    fn rule(&self) -> String {
        "for every receiver (owned arrays of every shape, every window of the listed parents as TooDeeViewMut, nested windows in the thorough tier, and two third-party implementors that forward only the required trait methods so that every default method body runs): \
         swap(a,b) for all coordinate pairs in (0..=dim+1)^4 plus huge components, swap_rows / swap_cols / row_pair_mut for all index pairs in (0..=dim+1 + huge)^2, fill. \
         In range: exactly the named cells/rows/columns exchanged (whole parent compared with the model, so cells outside a window are covered), row_pair_mut slices compared by address and order; out of range (or r1==r2 for row_pair_mut): must panic and leave the parent unchanged. \
         Arrays of () with close to usize::MAX cells and their mutable windows: swap between corner cells and row_pair_mut of the first / last rows must succeed (rows of the window's width, in the order asked), any coordinate or row just outside or far outside must panic (only these constant-time primitives are used there). \
         Cells that own a resource (drop ledger), on owned arrays, windows and both third-party implementors, shapes up to 3x3: every in-range swap / swap_rows / swap_cols and a row_pair_mut exchange must MOVE the elements (same identities at the exchanged positions, all live), and dropping the array afterwards drops each exactly once. \
         After a fill whose Clone panics at any call (caught) the swap primitives must still do exactly their job on the surviving array. Arrays and windows of the zero-sized () must accept and reject exactly the same arguments as arrays of ordinary elements (shapes up to 3x3). A case is (receiver, call, arguments); non-trivial when the receiver is non-empty; distinct by (receiver, call, arguments)."
            .into()
    }
    fn bound(&self, tier: Tier) -> String {
        format!("owned shapes up to {0}x{0}; all windows of {0}x{0}, 1x{0}, {0}x1 parents{1}", n_for(tier), if tier == Tier::Thorough { " plus 2x3 and 3x2, and windows of windows" } else { "" })
    }
    fn assumptions(&self) -> Vec<String> {
        vec!["third-party implementors are modelled by wrappers that delegate the required methods to TooDee / TooDeeViewMut (the iterator types have no public constructors)".into()]
    }
}

fn run_receiver(rd: &Recv, ctx: &mut Ctx) {
    let (c, r) = rd.size();
    let rect = rd.rect();
    let cols = idx_values(c, false);
    let rows = idx_values(r, false);
    let hc = idx_values(c, true);
    let hr = idx_values(r, true);
    let rd = *rd;
    let nonempty = c > 0;

    // swap: all coordinate pairs; huge values one component at a time
    let mut coords: Vec<((usize, usize), (usize, usize))> = Vec::new();
    for &c1 in &cols {
        for &r1 in &rows {
            for &c2 in &cols {
                for &r2 in &rows {
                    coords.push(((c1, r1), (c2, r2)));
                }
            }
        }
    }
    // row (and column) indices whose product with a stride wraps back into the parent's buffer
    let wrapping: Vec<usize> = huge_for_mul(&[rd.pc, c.max(1), rd.pc + 1], rd.pc * rd.pr + 1, r.max(c));
    if nonempty {
        for &h in &wrapping {
            coords.push(((0, r - 1), (0, h)));
            coords.push(((0, h), (c - 1, 0)));
            coords.push(((h, 0), (0, 0)));
            coords.push(((0, 0), (h, r - 1)));
        }
    }
    for h in huge_fixed() {
        coords.push(((h, 0), (0, 0)));
        coords.push(((0, h), (0, 0)));
        coords.push(((0, 0), (h, 0)));
        coords.push(((0, 0), (0, h)));
        coords.push(((h, h), (h, h)));
    }
    for (a, b) in coords {
        ctx.case(
            || format!("{} swap({:?},{:?})", rd.enc(), a, b),
            |cs| {
                if nonempty {
                    cs.nontrivial((rd, "swap", a, b));
                }
                let mut p = parent_kt(rd.pc, rd.pr);
                let before = model_of_kt(&p);
                let valid = a.0 < c && a.1 < r && b.0 < c && b.1 < r;
                let res = guarded(|| with_recv!(p, rd, |x| { x.swap(a, b) }));
                let mut expect = before.clone();
                if valid {
                    let mut w = before.window(rect.0, rect.1);
                    w.swap(a, b);
                    expect = splice(&before, rect, &w);
                }
                judge(cs, "swap", valid, res.is_ok(), diff_parent(&p, &expect));
            },
        );
    }
    for (name, dim, vals) in [("swap_rows", r, &hr), ("swap_cols", c, &hc), ("row_pair_mut", r, &hr)] {
        let mut pairs: Vec<(usize, usize)> = Vec::new();
        for &i in vals.iter() {
            for &j in vals.iter() {
                pairs.push((i, j));
            }
        }
        for &h in &wrapping {
            for i in 0..dim {
                pairs.push((i, h));
                pairs.push((h, i));
            }
        }
        {
            for (i, j) in pairs {
                ctx.case(
                    || format!("{} {}({},{})", rd.enc(), name, i, j),
                    |cs| {
                        if nonempty {
                            cs.nontrivial((rd, name, i, j));
                        }
                        let mut p = parent_kt(rd.pc, rd.pr);
                        let before = model_of_kt(&p);
                        if rd.kind == super::recv::RK::OwnedSpare {
                            // the spare capacity is reserved (and the buffer moved) before the address is taken
                            toodee::TooDee::reserve(&mut p, rd.pc * 2 + 3);
                        }
                        let base = p.data().as_ptr() as usize;
                        let mut valid = i < dim && j < dim;
                        let mut expect = before.clone();
                        let mut addr: Option<(usize, usize, usize, usize)> = None;
                        let res = match name {
                            "swap_rows" => guarded(|| with_recv!(p, rd, |x| { x.swap_rows(i, j) })),
                            "swap_cols" => guarded(|| with_recv!(p, rd, |x| { x.swap_cols(i, j) })),
                            _ => {
                                valid = valid && i != j;
                                guarded(|| {
                                    with_recv!(p, rd, |x| {
                                        let (a, b) = x.row_pair_mut(i, j);
                                        addr = Some((a.as_ptr() as usize, a.len(), b.as_ptr() as usize, b.len()));
                                    })
                                })
                            }
                        };
                        if valid {
                            let mut w = before.window(rect.0, rect.1);
                            match name {
                                "swap_rows" => w.swap_rows(i, j),
                                "swap_cols" => w.swap_cols(i, j),
                                _ => {}
                            }
                            expect = splice(&before, rect, &w);
                        }
                        judge(cs, name, valid, res.is_ok(), diff_parent(&p, &expect));
                        if name == "row_pair_mut" && valid && res.is_ok() {
                            let sz = std::mem::size_of::<Kt>();
                            let ea = base + ((rect.0 .1 + i) * rd.pc + rect.0 .0) * sz;
                            let eb = base + ((rect.0 .1 + j) * rd.pc + rect.0 .0) * sz;
                            if addr != Some((ea, c, eb, c)) {
                                cs.fail("row_pair_mut:wrong-rows", format!("row_pair_mut({},{}) returned (addr,len) {:?}, expected rows at {:#x}/{:#x} of length {}", i, j, addr, ea, eb, c));
                            }
                        }
                    },
                );
            }
        }
    }
    ctx.case(
        || format!("{} fill", rd.enc()),
        |cs| {
            if nonempty {
                cs.nontrivial((rd, "fill"));
            }
            let mut p = parent_kt(rd.pc, rd.pr);
            let before = model_of_kt(&p);
            let v = Kt::new(200, 9999);
            let res = guarded(|| with_recv!(p, rd, |x| { x.fill(v) }));
            let mut w = before.window(rect.0, rect.1);
            for row in w.cells.iter_mut() {
                for x in row.iter_mut() {
                    *x = (200, 9999);
                }
            }
            let expect = splice(&before, rect, &w);
            judge(cs, "fill", true, res.is_ok(), diff_parent(&p, &expect));
        },
    );
}

/// fill(v) whose Clone panics at the k-th call (caught): the array must still be an array of the
/// same size holding old or new values, and the swap primitives must still do exactly their job on it.
fn run_fault_fill(c: usize, r: usize, ctx: &mut Ctx) {
    use crate::engine::ledger::{self, Tracked};
    use toodee::TooDee;
    for window in [false, true] {
        let (pc, pr, off) = if window { (c + 1, r + 1, (1usize, 1usize)) } else { (c, r, (0, 0)) };
        let build = || -> TooDee<Tracked> { TooDee::from_vec(pc, pr, (0..pc * pr).map(|i| Tracked::new(i as u32)).collect()) };
        let do_fill = |p: &mut TooDee<Tracked>| {
            if window {
                p.view_mut(off, (off.0 + c, off.1 + r)).fill(Tracked::new(500))
            } else {
                p.fill(Tracked::new(500))
            }
        };
        let mut ticks = 0u64;
        ctx.pilot_case(
            || format!("fill on {} {}x{} of Tracked, counting calls into Clone/Drop", if window { "a window" } else { "an owned array" }, c, r),
            |cs| {
                let mut p = build();
                ledger::arm(u64::MAX);
                let _ = guarded(|| do_fill(&mut p));
                ticks = ledger::disarm();
                cs.nontrivial((window, c, r, "count"));
                cs.outcome("accepted");
            },
        );
        for k in 0..ticks {
            ctx.case(
                || format!("fill on {} {}x{} of Tracked with call #{} into Clone/Drop panicking, then swap / swap_rows / swap_cols", if window { "a window" } else { "an owned array" }, c, r, k),
                |cs| {
                    let mut p = build();
                    ledger::arm(k);
                    let _ = guarded(|| do_fill(&mut p));
                    ledger::disarm();
                    cs.nontrivial((window, c, r, k));
                    cs.outcome("faulted-fill");
                    if p.size() != (pc, pr) || p.data().len() != pc * pr {
                        cs.fail("fill:invalid-after-panic", format!("after the caught panic size() = {:?} but data().len() = {}", p.size(), p.data().len()));
                        std::mem::forget(p);
                        return;
                    }
                    if p.data().iter().any(|e| !e.valid()) {
                        cs.fail("fill:invalid-after-panic", "a cell holds a dead element after the caught panic".into());
                        std::mem::forget(p);
                        return;
                    }
                    // the swap primitives on the surviving array
                    let ids = |p: &TooDee<Tracked>| -> Vec<u64> { p.data().iter().map(|e| e.id).collect() };
                    let before = ids(&p);
                    let idx = |x: usize, y: usize| (off.1 + y) * pc + off.0 + x;
                    let mut expect = before.clone();
                    expect.swap(idx(0, 0), idx(c - 1, r - 1));
                    let res = guarded(|| {
                        if window {
                            p.view_mut(off, (off.0 + c, off.1 + r)).swap((0, 0), (c - 1, r - 1))
                        } else {
                            p.swap((0, 0), (c - 1, r - 1))
                        }
                    });
                    if res.is_err() || ids(&p) != expect {
                        cs.fail("swap:wrong-effect-after-faulted-fill", format!("swap((0,0),({},{})) on the array that survived a panicking fill: {:?}", c - 1, r - 1, res));
                    }
                    for x in 0..c {
                        expect.swap(idx(x, 0), idx(x, r - 1));
                    }
                    let res = guarded(|| {
                        if window {
                            p.view_mut(off, (off.0 + c, off.1 + r)).swap_rows(0, r - 1)
                        } else {
                            p.swap_rows(0, r - 1)
                        }
                    });
                    if res.is_err() || ids(&p) != expect {
                        cs.fail("swap_rows:wrong-effect-after-faulted-fill", format!("swap_rows(0,{}) on the array that survived a panicking fill: {:?}", r - 1, res));
                    }
                    for y in 0..r {
                        expect.swap(idx(0, y), idx(c - 1, y));
                    }
                    let res = guarded(|| {
                        if window {
                            p.view_mut(off, (off.0 + c, off.1 + r)).swap_cols(0, c - 1)
                        } else {
                            p.swap_cols(0, c - 1)
                        }
                    });
                    if res.is_err() || ids(&p) != expect {
                        cs.fail("swap_cols:wrong-effect-after-faulted-fill", format!("swap_cols(0,{}) on the array that survived a panicking fill: {:?}", c - 1, res));
                    }
                    drop(p);
                    let (dd, gd, first) = ledger::problems();
                    if dd + gd > 0 {
                        cs.fail("fill:double-drop", format!("{} double / {} garbage drops: {}", dd, gd, first.unwrap_or_default()));
                    }
                },
            );
        }
    }
}

fn judge(cs: &mut crate::engine::Case, op: &str, valid: bool, returned: bool, diff: Option<String>) {
    match (valid, returned) {
        (true, true) => {
            cs.outcome("accepted");
            if let Some(d) = diff {
                cs.fail(&format!("{}:wrong-effect", op), d);
            }
        }
        (true, false) => {
            cs.outcome("spurious-panic");
            cs.fail(&format!("{}:panics-on-valid", op), "valid arguments but the call panicked".into());
        }
        (false, false) => {
            cs.outcome("rejected");
            if let Some(d) = diff {
                cs.fail(&format!("{}:rejected-but-modified", op), d);
            }
        }
        (false, true) => {
            cs.outcome("accepted-invalid");
            cs.fail(&format!("{}:accepts-out-of-range", op), format!("out-of-range arguments but the call returned{}", diff.map(|d| format!(" ({})", d)).unwrap_or_default()));
        }
    }
}

/// swap and row_pair_mut on arrays of () with close to usize::MAX cells and on their mutable windows: the
/// offset arithmetic must not overflow for cells / rows that exist; everything outside must still be rejected.
fn run_huge_zst(c: usize, r: usize, ctx: &mut Ctx) {
    use toodee::TooDee;
    for (s, e) in super::hugezst::windows(c, r) {
        let (wc, wr) = (e.0 - s.0, e.1 - s.1);
        let xs: Vec<usize> = {
            let mut v = vec![0, wc / 2, wc - 1, wc, wc.wrapping_add(1), usize::MAX];
            v.sort_unstable();
            v.dedup();
            v
        };
        let ys: Vec<usize> = {
            let mut v = vec![0, wr / 2, wr - 1, wr, wr.wrapping_add(1), usize::MAX];
            v.sort_unstable();
            v.dedup();
            v
        };
        for window in [false, true] {
            if !window && (s, e) != ((0, 0), (c, r)) {
                continue;
            }
            // swap: one corner cell against every probe coordinate, both argument orders
            for &x in &xs {
                for &y in &ys {
                    for flip in [false, true] {
                        ctx.case(
                            || format!("TooDee<()> {}x{} window {:?}-{:?} ({}) swap of (0,{}) and ({},{}){}", c, r, s, e, if window { "view_mut" } else { "owned" }, wr - 1, x, y, if flip { " reversed" } else { "" }),
                            |cs| {
                                let valid = x < wc && y < wr;
                                if valid {
                                    cs.nontrivial((c, r, s, e, window, x, y, flip));
                                }
                                let mut t: TooDee<()> = super::hugezst::array(c, r);
                                let (a, b) = if flip { ((x, y), (0, wr - 1)) } else { ((0, wr - 1), (x, y)) };
                                let res = if window { guarded(|| t.view_mut(s, e).swap(a, b)) } else { guarded(|| t.swap(a, b)) };
                                judge(cs, "swap", valid, res.is_ok(), None);
                            },
                        );
                    }
                }
            }
            // row_pair_mut: the first row against every probe row, both orders
            for &y in &ys {
                for flip in [false, true] {
                    ctx.case(
                        || format!("TooDee<()> {}x{} window {:?}-{:?} ({}) row_pair_mut of 0 and {}{}", c, r, s, e, if window { "view_mut" } else { "owned" }, y, if flip { " reversed" } else { "" }),
                        |cs| {
                            let valid = y < wr && y != 0;
                            if valid {
                                cs.nontrivial((c, r, s, e, window, y, flip));
                            }
                            let mut t: TooDee<()> = super::hugezst::array(c, r);
                            let (r1, r2) = if flip { (y, 0) } else { (0, y) };
                            let res = if window {
                                guarded(|| {
                                    let mut v = t.view_mut(s, e);
                                    let (p, q) = v.row_pair_mut(r1, r2);
                                    (p.len(), q.len())
                                })
                            } else {
                                guarded(|| {
                                    let (p, q) = t.row_pair_mut(r1, r2);
                                    (p.len(), q.len())
                                })
                            };
                            judge(cs, "row_pair_mut", valid, res.is_ok(), None);
                            if let (true, Ok(l)) = (valid, &res) {
                                if *l != (wc, wc) {
                                    cs.fail("row_pair_mut:wrong-rows", format!("rows of length {:?} returned, the window is {} wide", l, wc));
                                }
                            }
                        },
                    );
                }
            }
        }
    }
}

/// The swap primitives on cells that own a resource: elements are moved, never duplicated or dropped.
fn run_owning(c: usize, r: usize, ctx: &mut Ctx) {
    use super::recv::{ForeignOwned, ForeignWindow};
    use crate::engine::ledger::{self, Tracked};
    use toodee::TooDee;
    #[derive(Clone, Copy, Debug, Hash, PartialEq, Eq)]
    enum O {
        Swap((usize, usize), (usize, usize)),
        Rows(usize, usize),
        Cols(usize, usize),
        Pair(usize, usize),
    }
    let mut ops: Vec<O> = Vec::new();
    for x1 in 0..c {
        for y1 in 0..r {
            for x2 in 0..c {
                for y2 in 0..r {
                    ops.push(O::Swap((x1, y1), (x2, y2)));
                }
            }
        }
    }
    for a in 0..r {
        for b in 0..r {
            ops.push(O::Rows(a, b));
            if a != b {
                ops.push(O::Pair(a, b));
            }
        }
    }
    for a in 0..c {
        for b in 0..c {
            ops.push(O::Cols(a, b));
        }
    }
    fn run_op<X: TooDeeOpsMut<Tracked>>(x: &mut X, op: &O) {
        match *op {
            O::Swap(a, b) => x.swap(a, b),
            O::Rows(a, b) => x.swap_rows(a, b),
            O::Cols(a, b) => x.swap_cols(a, b),
            O::Pair(a, b) => {
                let (p, q) = x.row_pair_mut(a, b);
                p.swap_with_slice(q);
            }
        }
    }
    for op in ops {
        for kind in 0..4u8 {
            let name = ["TooDee", "TooDeeViewMut window", "third-party owned", "third-party window"][kind as usize];
            ctx.case(
                || format!("{} of Tracked {}x{}: {:?}", name, c, r, op),
                |cs| {
                    cs.nontrivial((c, r, kind, op));
                    cs.outcome("accepted");
                    let window = kind == 1 || kind == 3;
                    let (pc, pr, off) = if window { (c + 2, r + 1, (1usize, 1usize)) } else { (c, r, (0, 0)) };
                    let live0 = ledger::live_count();
                    let mut p: TooDee<Tracked> = TooDee::from_vec(pc, pr, (0..pc * pr).map(|i| Tracked::new(i as u32)).collect());
                    let before: Vec<u64> = p.data().iter().map(|e| e.id).collect();
                    let res = guarded(|| match kind {
                        0 => run_op(&mut p, &op),
                        1 => run_op(&mut p.view_mut(off, (off.0 + c, off.1 + r)), &op),
                        2 => {
                            let mut f = ForeignOwned(std::mem::take(&mut p));
                            let r = std::panic::catch_unwind(std::panic::AssertUnwindSafe(|| run_op(&mut f, &op)));
                            p = f.0;
                            if let Err(e) = r {
                                std::panic::resume_unwind(e);
                            }
                        }
                        _ => run_op(&mut ForeignWindow(p.view_mut(off, (off.0 + c, off.1 + r))), &op),
                    });
                    if let Err(m) = res {
                        cs.fail("owning:panics-on-valid", format!("{:?} panicked: {}", op, m));
                        std::mem::forget(p);
                        return;
                    }
                    // expected identities
                    let idx = |x: usize, y: usize| (off.1 + y) * pc + off.0 + x;
                    let mut exp = before.clone();
                    match op {
                        O::Swap(a, b) => exp.swap(idx(a.0, a.1), idx(b.0, b.1)),
                        O::Rows(a, b) | O::Pair(a, b) => {
                            for x in 0..c {
                                exp.swap(idx(x, a), idx(x, b));
                            }
                        }
                        O::Cols(a, b) => {
                            for y in 0..r {
                                exp.swap(idx(a, y), idx(b, y));
                            }
                        }
                    }
                    if p.size() != (pc, pr) || p.data().len() != pc * pr {
                        cs.fail("owning:shape", format!("size {:?} over {} cells afterwards", p.size(), p.data().len()));
                        std::mem::forget(p);
                        return;
                    }
                    if p.data().iter().any(|e| !e.valid()) {
                        cs.fail("owning:dead-cell", format!("after {:?} a cell holds an element that was already dropped", op));
                        std::mem::forget(p);
                        return;
                    }
                    let now: Vec<u64> = p.data().iter().map(|e| e.id).collect();
                    if now != exp {
                        cs.fail("owning:wrong-effect", format!("after {:?} the element identities are {:?}, expected {:?}", op, now, exp));
                    }
                    drop(p);
                    let (dd, gd, first) = ledger::problems();
                    if dd + gd > 0 {
                        cs.fail("owning:double-drop", format!("{} double / {} garbage drops: {}", dd, gd, first.unwrap_or_default()));
                    }
                    if ledger::live_count() != live0 {
                        cs.fail("owning:leak", format!("{} elements were never dropped", ledger::live_count() - live0));
                    }
                },
            );
        }
    }
}
