//! C05 - every element is dropped exactly once (explicit-state search with a drop ledger).

use super::array_bfs::{bounds_for, init_units, run_unit_generic};
use crate::engine::{Ctx, Kind, Profile, Prop, Tier};

pub struct C05P;
pub static C05: C05P = C05P;

const QUICK: (usize, usize) = (6, 3);
const THOROUGH: (usize, usize) = (8, 4);

impl Prop for C05P {
    fn id(&self) -> &'static str {
        "C05"
    }
    fn level(&self) -> &'static str {
        "model_checking"
    }
    fn kind(&self) -> Kind {
        Kind::Bfs
    }
    fn profiles(&self, tier: Tier) -> Vec<Profile> {
        tier.pick(vec![Profile::Chk, Profile::Rel], vec![Profile::Chk, Profile::Wrap, Profile::Rel])
    }
    fn units(&self, tier: Tier) -> Vec<String> {
        let b = bounds_for(tier, QUICK, THOROUGH);
        let mut v = init_units('T', &b);
        v.extend(init_units('Z', &b));
        v.extend(super::array_bfs::chain_units('T', false, tier));
        v
    }
    fn run_unit(&self, unit: &str, ctx: &mut Ctx) {
        if unit.starts_with("extra:chain:") {
            super::array_bfs::run_chain_unit(unit, ctx);
            return;
        }
        let b = bounds_for(ctx.tier, QUICK, THOROUGH);
        run_unit_generic(unit, ctx, &b, true);
    }
    fn page_guard(&self, tier: Tier, profile: Profile) -> bool {
        let _ = (tier, profile);
        profile == Profile::Rel
    }
    fn rule(&self) -> String {
        "the C01 search repeated over TooDee<Tracked> (elements registered in a drop ledger by unique id, with a canary) and TooDee<TrackedZst> (zero-sized, created/dropped counters); \
         alphabet = every operation that moves elements (insert/push from owned iterators, remove/pop with every front/back consumption split - yielded elements are held and dropped after the drain -, removal consumed through nth / nth_back / skip+step_by / rev+skip / last / count, removal whose drain is LEAKED with mem::forget after every consumption split (the state is then read back from the array and the search continues from it), clear, fill, clone_from_slice, clone_from_toodee, Clone::clone_from, swaps, sorts, translate, flips, indexed replacement) \
         plus terminal actions in every state (drop, clone and drop in either order, Vec::from, Box::from, into_iter consumed (f,b) then dropped, TooDee::from(view/view_mut) of every window). \
         For Tracked elements every transition is additionally re-run once per call into the element type's own code (Clone, Drop, Ord::cmp) with that call panicking: afterwards the array must be valid and nothing dropped twice. Oracle after every transition: every reachable cell is live, canary-valid and pairwise distinct; no double drop, no drop of a never-constructed value; when nothing panicked, live elements == reachable cells; \
         after the array is dropped the ledger is empty; guard allocator clean. \
         Two-step (thorough: also three-step, from the shapes up to 2x2) histories on ONE live object (nothing re-materialised between the steps, so spare capacity and stale bits beyond the length are carried over): from the distinct-label array of each shape up to 3x2 / 2x3, every action (exact and spare capacity) followed by every action of the state reached, same oracle after each step. Non-trivial = accepted call or terminal action; distinct by (state, action, capacity variant)."
            .into()
    }
    fn bound(&self, tier: Tier) -> String {
        let (cells, dim) = tier.pick(QUICK, THOROUGH);
        format!("all states with <= {} cells and dims <= {}, element types Tracked and TrackedZst, to fixpoint", cells, dim)
    }
    fn assumptions(&self) -> Vec<String> {
        vec![
            "leaks are only reported for transitions in which nothing panicked (the property allows leaks after a panic)".into(),
            "zero-sized elements have no identity: only created/dropped counts are compared".into(),
        ]
    }
}
