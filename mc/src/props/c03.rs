//! C03 - a view is exactly the requested window of its parent (bounded-exhaustive).

use toodee::{Coordinate, TooDee, TooDeeOps, TooDeeOpsMut, TooDeeView, TooDeeViewMut};

use super::views::{diff_cells as diff, expected, observe_cells as observe, win_size, win_valid, Obs};
use crate::engine::util::{huge_fixed, shapes, windows};
use crate::engine::{guarded, Case, Ctx, Profile, Prop, Tier};

pub struct C03P;
pub static C03: C03P = C03P;

type Win = (Coordinate, Coordinate);

fn root(c: usize, r: usize) -> TooDee<u32> {
    TooDee::from_vec(c, r, (0..(c * r) as u32).collect())
}

/// Writes a distinct value through every cell of the view, each cell through one of the four
/// mutable access paths in turn (IndexMut<Coordinate>, IndexMut<usize>, get_unchecked_mut,
/// get_unchecked_row_mut).
fn write_all<V: TooDeeOpsMut<u32>>(v: &mut V) {
    let (c, r) = v.size();
    for y in 0..r {
        for x in 0..c {
            let val = 1000 + (y * c + x) as u32;
            match (x + 2 * y) % 4 {
                0 => v[(x, y)] = val,
                1 => v[y][x] = val,
                2 => unsafe { *v.get_unchecked_mut((x, y)) = val },
                _ => unsafe { v.get_unchecked_row_mut(y)[x] = val },
            }
        }
    }
}

/// Runs the chain: prefix windows are known to be valid; the last step (s, e) is under test.
/// Returns the observation of the final view (taken inside the guarded region).
fn run_chain(rt: &mut TooDee<u32>, chain: &str, prefix: &[Win], s: Coordinate, e: Coordinate) -> Result<Obs, String> {
    match chain {
        "V" => guarded(|| observe(&rt.view(s, e))),
        "M" => guarded(|| {
            let mut v = rt.view_mut(s, e);
            let o = observe(&v);
            write_all(&mut v);
            o
        }),
        // the requested mutable window converted into a read-only view
        "Mi" => guarded(|| {
            let v: TooDeeView<'_, u32> = rt.view_mut(s, e).into();
            observe(&v)
        }),
        // an explicit clone of the requested view
        "Vc" => guarded(|| {
            let v = rt.view(s, e);
            #[allow(clippy::clone_on_copy)]
            let c = Clone::clone(&v);
            observe(&c)
        }),
        "VV" => {
            let w1 = rt.view(prefix[0].0, prefix[0].1);
            guarded(|| observe(&w1.view(s, e)))
        }
        // receivers obtained by conversion / clone
        "IV" => {
            let w1: TooDeeView<'_, u32> = rt.view_mut(prefix[0].0, prefix[0].1).into();
            guarded(|| observe(&w1.view(s, e)))
        }
        "CV" => {
            let w0 = rt.view(prefix[0].0, prefix[0].1);
            #[allow(clippy::clone_on_copy)]
            let w1 = Clone::clone(&w0);
            guarded(|| observe(&w1.view(s, e)))
        }
        "MV" => {
            let w1 = rt.view_mut(prefix[0].0, prefix[0].1);
            guarded(|| observe(&w1.view(s, e)))
        }
        "MM" => {
            let mut w1 = rt.view_mut(prefix[0].0, prefix[0].1);
            guarded(|| {
                let mut v = w1.view_mut(s, e);
                let o = observe(&v);
                write_all(&mut v);
                o
            })
        }
        "VVV" => {
            let w1 = rt.view(prefix[0].0, prefix[0].1);
            let w2 = w1.view(prefix[1].0, prefix[1].1);
            guarded(|| observe(&w2.view(s, e)))
        }
        "MVV" => {
            let w1 = rt.view_mut(prefix[0].0, prefix[0].1);
            let w2 = w1.view(prefix[1].0, prefix[1].1);
            guarded(|| observe(&w2.view(s, e)))
        }
        "MMV" => {
            let mut w1 = rt.view_mut(prefix[0].0, prefix[0].1);
            let w2 = w1.view_mut(prefix[1].0, prefix[1].1);
            guarded(|| observe(&w2.view(s, e)))
        }
        "MMM" => {
            let mut w1 = rt.view_mut(prefix[0].0, prefix[0].1);
            let mut w2 = w1.view_mut(prefix[1].0, prefix[1].1);
            guarded(|| {
                let mut v = w2.view_mut(s, e);
                let o = observe(&v);
                write_all(&mut v);
                o
            })
        }
        other => panic!("unknown chain {}", other),
    }
}

fn enc_win(w: &Win) -> String {
    format!("{},{}-{},{}", w.0 .0, w.0 .1, w.1 .0, w.1 .1)
}
fn parse_win(s: &str) -> Win {
    let n: Vec<usize> = s.split(|c: char| !c.is_ascii_digit()).filter(|x| !x.is_empty()).map(|x| x.parse().unwrap()).collect();
    ((n[0], n[1]), (n[2], n[3]))
}

fn chains_for(depth: usize) -> Vec<&'static str> {
    match depth {
        1 => vec!["V", "M", "Mi", "Vc"],
        2 => vec!["VV", "MV", "MM", "IV", "CV"],
        _ => vec!["VVV", "MVV", "MMV", "MMM"],
    }
}

impl Prop for C03P {
    fn id(&self) -> &'static str {
        "C03"
    }
    fn level(&self) -> &'static str {
        "exploration"
    }
    fn profiles(&self, _tier: Tier) -> Vec<Profile> {
        vec![Profile::Chk, Profile::Wrap]
    }
    fn units(&self, tier: Tier) -> Vec<String> {
        let n = tier.pick(4, 7);
        let mut v = Vec::new();
        for (c, r) in shapes(n) {
            for ch in chains_for(1) {
                v.push(format!("{} {}x{}", ch, c, r));
            }
            for w1 in windows(c, r) {
                for ch in chains_for(2) {
                    v.push(format!("{} {}x{} {}", ch, c, r, enc_win(&w1)));
                }
            }
        }
        // depth 3: parents up to 3x3 (quick: only the 3x3 parent) / 4x4 (thorough)
        let n3 = tier.pick(3, 4);
        for (c, r) in shapes(n3) {
            if tier == Tier::Quick && (c, r) != (n3, n3) {
                continue;
            }
            for w1 in windows(c, r) {
                let sz = win_size(w1.0, w1.1);
                for w2 in windows(sz.0, sz.1) {
                    for ch in chains_for(3) {
                        v.push(format!("{} {}x{} {} {}", ch, c, r, enc_win(&w1), enc_win(&w2)));
                    }
                }
            }
        }
        for c in 0..=n + 1 {
            v.push(format!("direct {}", c));
        }
        v.push("direct huge".into());
        v.push("hugezst".into());
        v
    }
    fn run_unit(&self, unit: &str, ctx: &mut Ctx) {
        let parts: Vec<&str> = unit.split(' ').collect();
        if parts[0] == "hugezst" {
            run_huge_zst(ctx);
            return;
        }
        if parts[0] == "direct" {
            run_direct(parts[1], ctx);
            return;
        }
        let chain = parts[0];
        let (pc, pr) = {
            let (a, b) = parts[1].split_once('x').unwrap();
            (a.parse::<usize>().unwrap(), b.parse::<usize>().unwrap())
        };
        let prefix: Vec<Win> = parts[2..].iter().map(|p| parse_win(p)).collect();
        run_chain_unit(chain, pc, pr, &prefix, ctx);
    }
    fn rule(&self) -> String {
        "for every parent shape, every receiver chain (TooDee->view, TooDee->view_mut, View->view, ViewMut->view, ViewMut->view_mut, and the four depth-3 chains) with every valid prefix window, \
         every (start,end) with all four components in 0..=dim+1 plus huge values: valid => the call returns, size() is end-start (or (0,0) for a zero extent), every cell reached through Index<Coordinate> and Index<usize> has the ADDRESS of the parent's cell (start+c, start+r), \
         and for view_mut writing distinct values through every cell changes exactly those root cells; invalid => panic and root unchanged. Direct constructors TooDeeView::new / TooDeeViewMut::new over slices of every length, then windows of those. \
         A case is (chain, prefix, start, end); non-trivial = valid non-empty window; distinct by all of these."
            .into()
    }
    fn bound(&self, tier: Tier) -> String {
        format!("parents up to {0}x{0} for nesting depth 1-2, up to {1} for depth 3; all argument tuples in (0..=dim+1)^4 plus huge values", tier.pick(4, 7), tier.pick("the 3x3 parent", "4x4"))
    }
}

fn abs_of(prefix: &[Win]) -> Coordinate {
    // absolute position of the receiver's cell (0,0) in the root
    let mut a = (0, 0);
    for w in prefix {
        a = (a.0 + w.0 .0, a.1 + w.0 .1);
    }
    a
}

fn judge(cs: &mut Case, what: &str, valid: bool, res: Result<Obs, String>, exp: impl FnOnce() -> Obs) {
    match (valid, res) {
        (true, Ok(o)) => {
            cs.outcome("window");
            if let Some(d) = diff(&o, &exp()) {
                cs.fail(&format!("{}:wrong-window", what), d);
            }
        }
        (true, Err(m)) => {
            cs.outcome("spurious-panic");
            cs.fail(&format!("{}:panics-on-valid", what), format!("valid window but the call panicked: {}", m));
        }
        (false, Err(_)) => cs.outcome("rejected"),
        (false, Ok(o)) => {
            cs.outcome("accepted-invalid");
            cs.fail(&format!("{}:accepts-invalid", what), format!("invalid window accepted, view size {:?}", o.size));
        }
    }
}

fn run_chain_unit(chain: &str, pc: usize, pr: usize, prefix: &[Win], ctx: &mut Ctx) {
    let mut recv_size = (pc, pr);
    for w in prefix {
        recv_size = win_size(w.0, w.1);
    }
    let abs0 = abs_of(prefix);
    let mutable = chain.ends_with('M');
    let mut args: Vec<(Coordinate, Coordinate)> = Vec::new();
    for sc in 0..=recv_size.0 + 1 {
        for sr in 0..=recv_size.1 + 1 {
            for ec in 0..=recv_size.0 + 1 {
                for er in 0..=recv_size.1 + 1 {
                    args.push(((sc, sr), (ec, er)));
                }
            }
        }
    }
    for h in huge_fixed() {
        args.push(((h, 0), (recv_size.0, recv_size.1)));
        args.push(((0, h), (recv_size.0, recv_size.1)));
        args.push(((0, 0), (h, recv_size.1)));
        args.push(((0, 0), (recv_size.0, h)));
        args.push(((h, h), (h, h)));
    }
    let unit_prefix: Vec<Win> = prefix.to_vec();
    for (s, e) in args {
        ctx.case(
            || format!("{} on {}x{} prefix {:?}: start {:?} end {:?}", chain, pc, pr, unit_prefix, s, e),
            |cs| {
                let mut rt = root(pc, pr);
                let base = rt.data().as_ptr() as usize;
                let valid = win_valid(s, e, recv_size);
                let sz = if valid { win_size(s, e) } else { (0, 0) };
                if valid && sz.0 > 0 {
                    cs.nontrivial((chain, pc, pr, &unit_prefix, s, e));
                }
                let res = run_chain(&mut rt, chain, &unit_prefix, s, e);
                let wrote = valid && res.is_ok() && mutable;
                let abs = if valid { (abs0.0 + s.0, abs0.1 + s.1) } else { (0, 0) };
                judge(cs, if mutable { "view_mut" } else { "view" }, valid, res, || expected(base, pc, abs, sz));
                // root contents: unchanged except (for a successful view_mut) the window cells
                for y in 0..pr {
                    for x in 0..pc {
                        let inside = wrote && x >= abs.0 && x < abs.0 + sz.0 && y >= abs.1 && y < abs.1 + sz.1;
                        let exp = if inside { 1000 + ((y - abs.1) * sz.0 + (x - abs.0)) as u32 } else { (y * pc + x) as u32 };
                        if rt[(x, y)] != exp {
                            cs.fail("view_mut:write-through", format!("after writing through the window, root cell ({},{}) = {} but {} expected; root {:?}", x, y, rt[(x, y)], exp, rt.data()));
                            return;
                        }
                    }
                }
            },
        );
    }
}

/// Windows of arrays of `()` with close to usize::MAX cells (only zero-sized elements get there):
/// the window arithmetic must not overflow for a valid window. Constructing a view never iterates.
fn run_huge_zst(ctx: &mut Ctx) {
    let m = usize::MAX;
    for (c, r) in [(m, 1usize), (m / 2, 2), (m / 3, 3), (1, m), (2, m / 2), (3, m / 3), (1usize << 32, (1usize << 32) - 1)] {
        let wins: Vec<((usize, usize), (usize, usize))> = vec![
            ((0, 0), (c, r)),
            ((0, 0), (2.min(c), r)),
            ((c - 1, r - 1), (c, r)),
            ((0, r - 1), (c, r)),
            ((c - 1, 0), (c, r)),
            ((c, r), (c, r)),
            ((0, 0), (1, 1)),
            ((1.min(c - 1), 0), (c, 1.min(r))),
        ];
        for (s, e) in wins {
            for mutable in [false, true] {
                ctx.case(
                    || format!("TooDee<()> {}x{} {}({:?},{:?})", c, r, if mutable { "view_mut" } else { "view" }, s, e),
                    |cs| {
                        let mut t: TooDee<()> = TooDee::init(c, r, ());
                        cs.nontrivial((c, r, s, e, mutable));
                        cs.outcome("window");
                        let sz = win_size(s, e);
                        let res = if mutable { guarded(|| t.view_mut(s, e).size()) } else { guarded(|| t.view(s, e).size()) };
                        match res {
                            Ok(got) => {
                                if got != sz {
                                    cs.fail("view:wrong-window", format!("size {:?}, expected {:?}", got, sz));
                                }
                            }
                            Err(m) => cs.fail("view:panics-on-valid", format!("valid window of a huge zero-sized array panicked: {}", m)),
                        }
                        // a nested window and an invalid one
                        if sz.0 > 0 {
                            let r2 = guarded(|| t.view(s, e).view((0, 0), (1, 1)).size());
                            if r2 != Ok((1, 1)) {
                                cs.fail("view:panics-on-valid", format!("nested window of a huge zero-sized view: {:?}", r2));
                            }
                        }
                        if guarded(|| t.view((0, 0), (c.wrapping_add(1), r)).size()).is_ok() && c != usize::MAX {
                            cs.fail("view:accepts-invalid", "end.0 = C+1 accepted on a huge zero-sized array".into());
                        }
                    },
                );
            }
        }
    }
}

fn run_direct(which: &str, ctx: &mut Ctx) {
    let n = ctx.tier.pick(4, 7);
    let mut dims: Vec<(usize, usize)> = Vec::new();
    if which == "huge" {
        let hs: Vec<usize> = huge_fixed();
        for &h in &hs {
            for o in [0usize, 1, 2, 3, h] {
                dims.push((h, o));
                dims.push((o, h));
            }
        }
    } else {
        let c: usize = which.parse().unwrap();
        for r in 0..=n + 1 {
            dims.push((c, r));
        }
    }
    for (c, r) in dims {
        for len in 0..=n * n + 1 {
            for mutable in [false, true] {
                ctx.case(
                    || format!("{}::new({}, {}, slice of {})", if mutable { "TooDeeViewMut" } else { "TooDeeView" }, c, r, len),
                    |cs| {
                        let mut buf: Vec<u32> = (0..len as u32).collect();
                        let base = buf.as_ptr() as usize;
                        let valid = ((c == 0) == (r == 0)) && c.checked_mul(r).map_or(false, |p| p <= len);
                        if valid && c > 0 {
                            cs.nontrivial((c, r, len, mutable));
                        }
                        let res = if mutable {
                            guarded(|| {
                                let mut v = TooDeeViewMut::new(c, r, &mut buf);
                                let o = observe(&v);
                                write_all(&mut v);
                                o
                            })
                        } else {
                            guarded(|| observe(&TooDeeView::new(c, r, &buf)))
                        };
                        let wrote = valid && res.is_ok() && mutable;
                        judge(cs, if mutable { "TooDeeViewMut::new" } else { "TooDeeView::new" }, valid, res, || expected(base, c, (0, 0), (c, r)));
                        for i in 0..len {
                            let exp = if wrote && i < c * r { 1000 + i as u32 } else { i as u32 };
                            if buf[i] != exp {
                                cs.fail("direct:write-through", format!("slice element {} = {} but {} expected", i, buf[i], exp));
                                return;
                            }
                        }
                        // windows of a directly constructed view (all valid ones, plus just-invalid ones)
                        if valid && c > 0 && c <= n && len == c * r {
                            for (s, e) in windows(c, r).into_iter().chain([((0, 0), (c + 1, r)), ((0, 0), (c, r + 1)), ((1, 0), (0, r))]) {
                                let wv = win_valid(s, e, (c, r));
                                let sz = if wv { win_size(s, e) } else { (0, 0) };
                                let res = if mutable {
                                    let mut v = TooDeeViewMut::new(c, r, &mut buf);
                                    guarded(|| observe(&v.view_mut(s, e)))
                                } else {
                                    let v = TooDeeView::new(c, r, &buf);
                                    guarded(|| observe(&v.view(s, e)))
                                };
                                judge(cs, "direct-then-window", wv, res, || expected(base, c, s, sz));
                            }
                        }
                    },
                );
            }
        }
    }
}
