//! C20 - constructors and conversions preserve contents and reject bad shapes (bounded-exhaustive).

use std::collections::hash_map::DefaultHasher;
use std::hash::{Hash, Hasher};

use toodee::{TooDee, TooDeeOps, TooDeeOpsMut, TooDeeView, TooDeeViewMut};

use super::elem::Elem;
use super::views::{diff_cells as diff, expected, observe_cells as observe};
use crate::engine::ledger::{self, Tracked};
use crate::engine::util::{shapes, windows};
use crate::engine::{guarded, Case, Ctx, Profile, Prop, Tier};

pub struct C20P;
pub static C20: C20P = C20P;

fn n_for(t: Tier) -> usize {
    t.pick(5, 12)
}

fn dim_set(n: usize) -> Vec<usize> {
    let mut v: Vec<usize> = (0..=n).collect();
    v.extend([1usize << 32, 1usize << 63, usize::MAX / 2 + 1, usize::MAX - 1, usize::MAX, (1usize << 32) + 1, 1usize << 31]);
    v
}

fn shape_valid(c: usize, r: usize) -> Option<usize> {
    if (c == 0) != (r == 0) {
        return None;
    }
    c.checked_mul(r)
}

fn ledger_balanced(cs: &mut Case, what: &str) {
    let (dd, gd, first) = ledger::problems();
    if dd + gd > 0 {
        cs.fail("ctor:double-drop", format!("{}: {} double / {} garbage drops: {}", what, dd, gd, first.unwrap_or_default()));
    }
    if ledger::live_count() != 0 {
        cs.fail("ctor:leak", format!("{}: {} elements still alive after everything was dropped", what, ledger::live_count()));
    }
}

fn run_new_init<E: Elem>(n: usize, ctx: &mut Ctx) {
    let dims = dim_set(n);
    for &c in &dims {
        for &r in &dims {
            for ctor in ["new", "init"] {
                let prod = shape_valid(c, r);
                // huge non-overflowing products: only executable for zero-sized elements, and even then only moderately large
                if let Some(p) = prod {
                    if p > n * n {
                        continue;
                    }
                }
                ctx.case(
                    || format!("TooDee::<{}>::{}({}, {})", E::NAME, ctor, c, r),
                    |cs| {
                        let res = guarded(|| if ctor == "new" { TooDee::<E>::new(c, r) } else { TooDee::<E>::init(c, r, E::make(9)) });
                        match (prod, res) {
                            (Some(p), Ok(t)) => {
                                cs.outcome("constructed");
                                cs.nontrivial((E::NAME, ctor, c, r));
                                let want = if ctor == "new" { E::default().label() } else { 9 };
                                if t.size() != (c, r) || t.data().len() != p || t.data().iter().any(|e| !e.sane() || e.label() != if E::ZST { 0 } else { want }) {
                                    cs.fail("ctor:wrong-contents", format!("size {:?}, {} cells {:?}; expected ({},{}) filled with label {}", t.size(), t.data().len(), t.data(), c, r, want));
                                }
                                if (0..r).any(|y| (0..c).any(|x| !E::ZST && t[(x, y)].label() != want)) {
                                    cs.fail("ctor:wrong-contents", "a cell reached through Index differs".into());
                                }
                                drop(t);
                            }
                            (Some(_), Err(m)) => cs.fail("ctor:panics-on-valid", format!("valid dimensions but the constructor panicked: {}", m)),
                            (None, Err(_)) => cs.outcome("rejected"),
                            (None, Ok(t)) => {
                                cs.outcome("accepted-invalid");
                                cs.fail("ctor:accepts-invalid", format!("dimensions ({},{}) must be rejected (one zero dimension or overflow) but an array of size {:?} with {} cells was returned", c, r, t.size(), t.data().len()));
                                std::mem::forget(t);
                            }
                        }
                        if E::TRACKED && !E::ZST {
                            ledger_balanced(cs, "after dropping the array");
                        }
                    },
                );
            }
        }
    }
}

fn run_zst_big(ctx: &mut Ctx) {
    // zero-sized elements: products far beyond memory are executable
    for (c, r) in [(1usize << 20, 3usize), (3, 1 << 20), (1 << 10, 1 << 10)] {
        for ctor in ["new", "init"] {
            ctx.case(
                || format!("TooDee::<()>::{}({}, {})", ctor, c, r),
                |cs| {
                    cs.nontrivial((ctor, c, r));
                    cs.outcome("constructed");
                    let res = guarded(|| if ctor == "new" { TooDee::<()>::new(c, r) } else { TooDee::<()>::init(c, r, ()) });
                    match res {
                        Ok(t) => {
                            if t.size() != (c, r) || t.data().len() != c * r || t.rows().len() != r || t.cells().len() != c * r {
                                cs.fail("ctor:wrong-contents", format!("size {:?} with {} cells", t.size(), t.data().len()));
                            }
                        }
                        Err(m) => cs.fail("ctor:panics-on-valid", m),
                    }
                },
            );
        }
    }
}

/// Every constructor on shapes of () with close to usize::MAX cells: a product that fits must be accepted (also beyond
/// isize::MAX cells: only zero-sized elements get there), over an exact and over a longer buffer.
fn run_zst_huge(ctx: &mut Ctx) {
    for (c, r) in super::hugezst::shapes() {
        let n = c * r;
        for ctor in ["new", "init", "from_vec", "from_box", "TooDeeView::new", "TooDeeViewMut::new", "TooDeeView::new (longer slice)", "TooDeeViewMut::new (longer slice)"] {
            ctx.case(
                || format!("{} of a {}x{} shape of ()", ctor, c, r),
                |cs| {
                    cs.nontrivial((ctor, c, r));
                    cs.outcome("constructed");
                    let longer = if n < usize::MAX { usize::MAX } else { n };
                    let res: Result<((usize, usize), usize), String> = guarded(|| match ctor {
                        "new" => {
                            let t = TooDee::<()>::new(c, r);
                            (t.size(), t.data().len())
                        }
                        "init" => {
                            let t = TooDee::<()>::init(c, r, ());
                            (t.size(), t.data().len())
                        }
                        "from_vec" => {
                            let t = TooDee::from_vec(c, r, vec![(); n]);
                            (t.size(), t.data().len())
                        }
                        "from_box" => {
                            let t = TooDee::from_box(c, r, vec![(); n].into_boxed_slice());
                            (t.size(), t.data().len())
                        }
                        "TooDeeView::new" => (TooDeeView::new(c, r, &vec![(); n]).size(), n),
                        "TooDeeViewMut::new" => (toodee::TooDeeViewMut::new(c, r, &mut vec![(); n]).size(), n),
                        "TooDeeView::new (longer slice)" => (TooDeeView::new(c, r, &vec![(); longer]).size(), n),
                        _ => (toodee::TooDeeViewMut::new(c, r, &mut vec![(); longer]).size(), n),
                    });
                    match res {
                        Ok((size, len)) => {
                            if size != (c, r) || len != n {
                                cs.fail("ctor:wrong-contents", format!("size {:?} with {} cells, expected ({},{}) with {}", size, len, c, r, n));
                            }
                        }
                        Err(m) => cs.fail("ctor:panics-on-valid", format!("{} of the valid shape ({},{}) panicked: {}", ctor, c, r, m)),
                    }
                },
            );
        }
    }
}

fn run_from_vec<E: Elem>(n: usize, c: usize, ctx: &mut Ctx) {
    let dims = dim_set(n);
    for &r in &dims {
        for len in 0..=n * n + 1 {
            for how in ["from_vec", "from_vec(spare)", "from_box"] {
                ctx.case(
                    || format!("TooDee::<{}>::{}({}, {}, buffer of {})", E::NAME, how, c, r, len),
                    |cs| {
                        let mut v: Vec<E> = Vec::with_capacity(len + if how == "from_vec(spare)" { 7 } else { 0 });
                        for i in 0..len {
                            v.push(E::make(i as u32));
                        }
                        let addr = v.as_ptr() as usize;
                        let valid = shape_valid(c, r) == Some(len);
                        let res = guarded(|| if how == "from_box" { TooDee::from_box(c, r, v.into_boxed_slice()) } else { TooDee::from_vec(c, r, v) });
                        match (valid, res) {
                            (true, Ok(t)) => {
                                cs.outcome("constructed");
                                cs.nontrivial((E::NAME, how, c, r, len));
                                if t.size() != (c, r) || t.data().len() != len || t.data().iter().enumerate().any(|(i, e)| !e.sane() || (!E::ZST && e.label() != i as u32)) {
                                    cs.fail("from_vec:wrong-contents", format!("size {:?}, cells {:?}", t.size(), t.data()));
                                }
                                for y in 0..r {
                                    for x in 0..c {
                                        if !E::ZST && t[(x, y)].label() != (y * c + x) as u32 {
                                            cs.fail("from_vec:not-row-major", format!("cell ({},{}) = {}", x, y, t[(x, y)].label()));
                                        }
                                    }
                                }
                                let _ = addr;
                                drop(t);
                            }
                            (true, Err(m)) => cs.fail("from_vec:panics-on-valid", format!("valid arguments but panicked: {}", m)),
                            (false, Err(_)) => cs.outcome("rejected"),
                            (false, Ok(t)) => {
                                cs.outcome("accepted-invalid");
                                cs.fail("from_vec:accepts-invalid", format!("({},{}) with a buffer of {} must be rejected but gave size {:?}", c, r, len, t.size()));
                                std::mem::forget(t);
                            }
                        }
                        if E::TRACKED && !E::ZST {
                            ledger_balanced(cs, "after dropping the array / rejected buffer");
                        }
                    },
                );
            }
        }
    }
}

fn run_view_ctor(n: usize, c: usize, ctx: &mut Ctx) {
    let dims = dim_set(n);
    for &r in &dims {
        for len in 0..=n * n + 1 {
            for mutable in [false, true] {
                ctx.case(
                    || format!("{}::new({}, {}, slice of {})", if mutable { "TooDeeViewMut" } else { "TooDeeView" }, c, r, len),
                    |cs| {
                        let mut buf: Vec<u32> = (0..len as u32).collect();
                        let base = buf.as_ptr() as usize;
                        let valid = shape_valid(c, r).map_or(false, |p| p <= len);
                        // the view itself (size, cells) and the owned copy made from it (From<view>)
                        let mut copy: Option<TooDee<u32>> = None;
                        let res = if mutable {
                            guarded(|| {
                                let o = observe(&TooDeeViewMut::new(c, r, &mut buf));
                                copy = Some(TooDee::from(TooDeeViewMut::new(c, r, &mut buf)));
                                o
                            })
                        } else {
                            guarded(|| {
                                let o = observe(&TooDeeView::new(c, r, &buf));
                                copy = Some(TooDee::from(TooDeeView::new(c, r, &buf)));
                                o
                            })
                        };
                        if let (true, Some(t)) = (valid, &copy) {
                            if t.size() != (c, r) || t.data() != &buf[..c * r] {
                                cs.fail("view-ctor:from-view", format!("TooDee::from(view over a slice of {}) has size {:?} and cells {:?}, expected ({},{}) and the first {} slice elements", len, t.size(), t.data(), c, r, c * r));
                            }
                        }
                        match (valid, res) {
                            (true, Ok(o)) => {
                                cs.outcome("constructed");
                                cs.nontrivial((c, r, len, mutable));
                                if let Some(d) = diff(&o, &expected(base, c, (0, 0), (c, r))) {
                                    cs.fail("view-ctor:wrong-cells", d);
                                }
                            }
                            (true, Err(m)) => cs.fail("view-ctor:panics-on-valid", m),
                            (false, Err(_)) => cs.outcome("rejected"),
                            (false, Ok(o)) => cs.fail("view-ctor:accepts-invalid", format!("({},{}) over a slice of {} must be rejected, got size {:?}", c, r, len, o.size)),
                        }
                    },
                );
            }
        }
    }
}

fn run_conversions<E: Elem>(c: usize, r: usize, ctx: &mut Ctx) {
    let n = c * r;
    let labels: Vec<u32> = if E::ZST { vec![0; n] } else { (0..n as u32).map(|i| i * 2 + 5).collect() };
    let build = |spare: bool| -> TooDee<E> {
        let mut v: Vec<E> = Vec::with_capacity(n + if spare { 5 } else { 0 });
        for l in &labels {
            v.push(E::make(*l));
        }
        TooDee::from_vec(c, r, v)
    };
    let lab = |s: &[E]| -> Vec<u32> { s.iter().map(|e| e.label()).collect() };
    for spare in [false, true] {
        ctx.case(
            || format!("TooDee<{}> {}x{} {}: default/with_capacity/Vec::from/Box::from/AsRef/AsMut/clone", E::NAME, c, r, if spare { "spare" } else { "exact" }),
            |cs| {
                cs.nontrivial((E::NAME, c, r, spare, "conv"));
                cs.outcome("converted");
                let d: TooDee<E> = TooDee::default();
                let w: TooDee<E> = TooDee::with_capacity(c + r);
                if d.size() != (0, 0) || !d.data().is_empty() || w.size() != (0, 0) || !w.data().is_empty() || (!E::ZST && w.capacity() < c + r) {
                    cs.fail("conv:default", "default()/with_capacity() are not empty (0,0) arrays".into());
                }
                let t = build(spare);
                let a: &[E] = t.as_ref();
                let b: &Vec<E> = t.as_ref();
                if lab(a) != labels || lab(b) != labels || a.as_ptr() != t.data().as_ptr() || b.as_ptr() != t.data().as_ptr() {
                    cs.fail("conv:as_ref", "AsRef<[T]> / AsRef<Vec<T>> do not expose the cells in row-major order".into());
                }
                let mut t = t;
                {
                    let p = t.data().as_ptr();
                    let m: &mut [E] = t.as_mut();
                    if m.as_ptr() != p || m.len() != n {
                        cs.fail("conv:as_mut", "AsMut<[T]> does not expose the buffer".into());
                    }
                }
                let cl = t.clone();
                if cl.size() != t.size() || lab(cl.data()) != labels || cl != t || (!E::ZST && n > 0 && cl.data().as_ptr() == t.data().as_ptr()) {
                    cs.fail("conv:clone", "clone() is not an equal, separately stored array".into());
                }
                // independence: mutate the clone, then the original
                let mut cl = cl;
                if n > 0 {
                    cl[(0, 0)] = E::make(1000);
                    if lab(t.data()) != labels {
                        cs.fail("conv:clone-independent", "writing to the clone changed the original".into());
                    }
                    t[(c - 1, r - 1)] = E::make(2000);
                    let mut exp = labels.clone();
                    exp[0] = 1000;
                    if !E::ZST && lab(cl.data()) != exp {
                        cs.fail("conv:clone-independent", "writing to the original changed the clone".into());
                    }
                    t[(c - 1, r - 1)] = E::make(labels[n - 1]);
                }
                drop(cl);
                // Clone::clone_from into arrays of other shapes (with and without spare capacity)
                for (oc, or) in [(0usize, 0usize), (r, c), (c + 1, r.max(1)), (1, 1), (c, r)] {
                    let mut x: TooDee<E> = TooDee::from_vec(oc, or, (0..oc * or).map(|i| E::make(900 + i as u32)).collect());
                    if spare {
                        x.reserve(7);
                    }
                    x.clone_from(&t);
                    if x.size() != t.size() || lab(x.data()) != lab(t.data()) || x != t {
                        cs.fail("conv:clone_from", format!("clone_from into a {}x{} array gives size {:?} cells {:?}, expected size {:?} cells {:?}", oc, or, x.size(), lab(x.data()), t.size(), lab(t.data())));
                    }
                    if n > 0 {
                        x[(0, 0)] = E::make(1234);
                        if lab(t.data()) != labels {
                            cs.fail("conv:clone-independent", "writing to the clone_from target changed the source".into());
                        }
                    }
                }
                let v: Vec<E> = build(spare).into();
                if lab(&v) != labels {
                    cs.fail("conv:vec", format!("Vec::from gives {:?}", lab(&v)));
                }
                let bx: Box<[E]> = build(spare).into();
                if lab(&bx) != labels {
                    cs.fail("conv:box", format!("Box::from gives {:?}", lab(&bx)));
                }
                drop((v, bx, t, d, w));
                if E::TRACKED && !E::ZST {
                    ledger_balanced(cs, "after dropping all conversions");
                }
            },
        );
        // into_iter with every (front, back) split, forwards and reversed
        for f in 0..=n {
            for b in 0..=(n - f) {
                ctx.case(
                    || format!("TooDee<{}> {}x{} {}: into_iter() take {} front, {} back, rest via a jump / adaptor path", E::NAME, c, r, if spare { "spare" } else { "exact" }, f, b),
                    |cs| {
                        cs.nontrivial((E::NAME, c, r, spare, f, b));
                        cs.outcome("into_iter");
                        let mut it = build(spare).into_iter();
                        let mut gf: Vec<u32> = Vec::new();
                        let mut gb: Vec<u32> = Vec::new();
                        if it.len() != n {
                            cs.fail("conv:into_iter", format!("len() = {}", it.len()));
                        }
                        for _ in 0..f {
                            gf.push(it.next().map(|e| e.label()).unwrap_or(u32::MAX));
                        }
                        for _ in 0..b {
                            gb.push(it.next_back().map(|e| e.label()).unwrap_or(u32::MAX));
                        }
                        // the rest through one of several paths (jumps from either end, adaptors)
                        let mid: Vec<u32> = labels[f..n - b].to_vec();
                        let mode = (f + 2 * b) % 6;
                        let (rest, er): (Vec<u32>, Vec<u32>) = match mode {
                            0 => (it.rev().map(|e| e.label()).collect(), mid.iter().rev().copied().collect()),
                            1 => {
                                let first = it.nth_back(1).map(|e| e.label());
                                let mut got: Vec<u32> = first.into_iter().collect();
                                got.extend(it.map(|e| e.label()));
                                let mut exp: Vec<u32> = Vec::new();
                                if mid.len() >= 2 {
                                    exp.push(mid[mid.len() - 2]);
                                    exp.extend(mid[..mid.len() - 2].iter().copied());
                                }
                                (got, exp)
                            }
                            2 => {
                                let first = it.nth(1).map(|e| e.label());
                                let mut got: Vec<u32> = first.into_iter().collect();
                                got.extend(it.rev().map(|e| e.label()));
                                let mut exp: Vec<u32> = Vec::new();
                                if mid.len() >= 2 {
                                    exp.push(mid[1]);
                                    exp.extend(mid[2..].iter().rev().copied());
                                }
                                (got, exp)
                            }
                            3 => (it.rev().skip(1).map(|e| e.label()).collect(), mid.iter().rev().skip(1).copied().collect()),
                            4 => (it.skip(1).step_by(2).map(|e| e.label()).collect(), mid.iter().skip(1).step_by(2).copied().collect()),
                            _ => (it.rev().step_by(2).map(|e| e.label()).collect(), mid.iter().rev().step_by(2).copied().collect()),
                        };
                        let ef: Vec<u32> = labels[..f].to_vec();
                        let eb: Vec<u32> = labels[n - b..].iter().rev().copied().collect();
                        if !E::ZST && (gf != ef || gb != eb || rest != er) {
                            cs.fail("conv:into_iter", format!("front {:?} back {:?} rest (path {}) {:?}; expected {:?} {:?} {:?}", gf, gb, mode, rest, ef, eb, er));
                        }
                        if E::ZST && (gf.len(), gb.len(), rest.len()) != (f, b, er.len()) {
                            cs.fail("conv:into_iter", "wrong number of items".into());
                        }
                        if E::TRACKED && !E::ZST {
                            ledger_balanced(cs, "after into_iter");
                        }
                    },
                );
            }
        }
    }
    // From<view> / From<view_mut> of every window
    for (s, e) in windows(c, r) {
        ctx.case(
            || format!("TooDee<{}> {}x{}: TooDee::from(view / view_mut {:?}-{:?})", E::NAME, c, r, s, e),
            |cs| {
                cs.nontrivial((E::NAME, c, r, s, e));
                cs.outcome("from-view");
                let mut t = build(false);
                let (wc, wr) = if e.0 == s.0 || e.1 == s.1 { (0, 0) } else { (e.0 - s.0, e.1 - s.1) };
                let mut exp: Vec<u32> = Vec::new();
                for y in 0..wr {
                    for x in 0..wc {
                        exp.push(labels[(s.1 + y) * c + s.0 + x]);
                    }
                }
                let a: TooDee<E> = TooDee::from(t.view(s, e));
                let b: TooDee<E> = TooDee::from(t.view_mut(s, e));
                let c2: TooDee<E> = TooDee::from(TooDeeView::from(t.view_mut(s, e)));
                for (name, x) in [("From<TooDeeView>", &a), ("From<TooDeeViewMut>", &b), ("From<TooDeeView from TooDeeViewMut>", &c2)] {
                    if x.size() != (wc, wr) || (!E::ZST && lab(x.data()) != exp) || x.data().len() != wc * wr || x.data().iter().any(|e| !e.sane()) {
                        cs.fail("conv:from-view", format!("{} gives size {:?} cells {:?}; expected ({},{}) {:?}", name, x.size(), lab(x.data()), wc, wr, exp));
                    }
                }
                // windows of the window, through every pairing of view / view_mut (expected cells read off the labels)
                let mut nested: Vec<TooDee<E>> = Vec::new();
                if wc >= 2 && wr >= 2 {
                    for (s2, e2) in [((1usize, 0usize), (wc, wr - 1)), ((0, 1), (wc - 1, wr)), ((1, 1), (wc, wr)), ((0, 1), (wc, wr))] {
                        let (w, h) = (e2.0 - s2.0, e2.1 - s2.1);
                        let mut exp2: Vec<u32> = Vec::new();
                        for y in 0..h {
                            for x in 0..w {
                                exp2.push(labels[(s.1 + s2.1 + y) * c + s.0 + s2.0 + x]);
                            }
                        }
                        let n1: TooDee<E> = TooDee::from(t.view(s, e).view(s2, e2));
                        let n2: TooDee<E> = TooDee::from(t.view_mut(s, e).view(s2, e2));
                        let n3: TooDee<E> = TooDee::from(t.view_mut(s, e).view_mut(s2, e2));
                        for (name, x) in [("From<view of a view>", &n1), ("From<view of a view_mut>", &n2), ("From<view_mut of a view_mut>", &n3)] {
                            if x.size() != (w, h) || (!E::ZST && lab(x.data()) != exp2) || x.data().len() != w * h || x.data().iter().any(|e| !e.sane()) {
                                cs.fail("conv:from-view", format!("{} {:?}-{:?} of the window gives size {:?} cells {:?}; expected ({},{}) {:?}", name, s2, e2, x.size(), lab(x.data()), w, h, exp2));
                            }
                        }
                        nested.extend([n1, n2, n3]);
                    }
                }
                if lab(t.data()) != labels {
                    cs.fail("conv:from-view", "the source changed".into());
                }
                drop(nested);
                drop((a, b, c2, t));
                if E::TRACKED && !E::ZST {
                    ledger_balanced(cs, "after From<view>");
                }
            },
        );
    }
}

fn hash_of<T: Hash>(t: &T) -> u64 {
    let mut h = DefaultHasher::new();
    t.hash(&mut h);
    h.finish()
}

/// Owned arrays that survived a caught panic in caller code (or a fault-free operation): clone() must be an
/// equal array and the conversions must yield num_cols*num_rows cells in row-major order.
fn run_survivors(c: usize, r: usize, ctx: &mut Ctx) {
    super::c11::for_each_survivor(c, r, ctx, &mut |t: TooDee<Tracked>, what: &str, cs: &mut crate::engine::Case| {
        let (nc, nr) = t.size();
        let len = t.data().len();
        if nc.checked_mul(nr).map_or(true, |a| a > 64) || len > 64 {
            std::mem::forget(t);
            return;
        }
        let area = nc * nr;
        let lab = |s: &[Tracked]| -> Vec<u32> { s.iter().map(|e| e.label).collect() };
        match guarded(|| t.clone()) {
            Err(m) => cs.fail("conv:clone", format!("{}: clone() panicked: {}", what, m)),
            Ok(cl) => {
                if cl.size() != (nc, nr) || lab(cl.data()) != lab(t.data()) || cl != t {
                    cs.fail("conv:clone", format!("{}: clone() has size {:?} and {} cells, the original ({},{}) and {}", what, cl.size(), cl.data().len(), nc, nr, len));
                }
                let expect: Option<Vec<u32>> = if area == len { Some(lab(t.data())) } else { None };
                let v: Vec<Tracked> = cl.into();
                if v.len() != area || expect.as_ref().map_or(false, |e| *e != lab(&v)) {
                    cs.fail("conv:vec", format!("{}: Vec::from of a clone of the ({},{}) array yields {} cells", what, nc, nr, v.len()));
                }
            }
        }
        if area != len {
            cs.fail("conv:vec", format!("{}: the ({},{}) array converts into {} cells", what, nc, nr, len));
            std::mem::forget(t);
            return;
        }
        let n = t.into_iter().count();
        if n != area {
            cs.fail("conv:into_iter", format!("{}: into_iter() of the ({},{}) array yields {} cells", what, nc, nr, n));
        }
    });
}

fn run_eq_hash(ctx: &mut Ctx) {
    // all arrays with <= 4 cells over {0,1}
    let mut all: Vec<(usize, usize, Vec<u32>)> = Vec::new();
    for (c, r) in shapes(4) {
        if c * r > 4 {
            continue;
        }
        for code in 0..(1u32 << (c * r)) {
            all.push((c, r, (0..c * r).map(|i| (code >> i) & 1).collect()));
        }
    }
    for (i, a) in all.iter().enumerate() {
        ctx.case(
            || format!("== and Hash: {}x{} {:?} against all {} arrays with <= 4 cells over {{0,1}}", a.0, a.1, a.2, all.len()),
            |cs| {
                cs.nontrivial(i);
                cs.outcome("compared");
                let ta = TooDee::from_vec(a.0, a.1, a.2.clone());
                #[allow(clippy::eq_op)]
                if !(ta == ta) || ta != ta {
                    cs.fail("eq:wrong", format!("{}x{} {:?} does not equal itself", a.0, a.1, a.2));
                }
                // cells whose equality is not reflexive: 1 stands for NaN. Equal exactly when the dimensions are equal
                // and the cells are pairwise equal - also when both operands are the same object
                let fa: TooDee<f64> = TooDee::from_vec(a.0, a.1, a.2.iter().map(|x| if *x == 1 { f64::NAN } else { 0.0 }).collect());
                let has_nan = a.2.contains(&1);
                #[allow(clippy::eq_op)]
                if (fa == fa) == has_nan || (fa != fa) != has_nan || (fa == fa.clone()) == has_nan {
                    cs.fail("eq:wrong", format!("{}x{} array of f64 {:?}: x == x is {}, x == x.clone() is {}", a.0, a.1, fa.data(), fa == fa, fa == fa.clone()));
                }
                if a.0 > 0 {
                    let v1 = fa.view((0, 0), (a.0, a.1));
                    #[allow(clippy::eq_op)]
                    if (v1 == v1) == has_nan {
                        cs.fail("eq:view-wrong", format!("full view of the {}x{} array of f64 {:?}: v == v is {}", a.0, a.1, fa.data(), v1 == v1));
                    }
                }
                for b in all.iter() {
                    let mut vb = Vec::with_capacity(b.2.len() + 3);
                    vb.extend_from_slice(&b.2);
                    let tb = TooDee::from_vec(b.0, b.1, vb);
                    let same = a == b;
                    let fb: TooDee<f64> = TooDee::from_vec(b.0, b.1, b.2.iter().map(|x| if *x == 1 { f64::NAN } else { 0.0 }).collect());
                    if (fa == fb) != (same && !has_nan) {
                        cs.fail("eq:wrong", format!("f64 arrays {}x{} {:?} == {}x{} {:?} evaluates to {}", a.0, a.1, fa.data(), b.0, b.1, fb.data(), fa == fb));
                    }
                    if (ta == tb) != same || (ta != tb) == same {
                        cs.fail("eq:wrong", format!("{}x{} {:?} == {}x{} {:?} evaluates to {}", a.0, a.1, a.2, b.0, b.1, b.2, ta == tb));
                    }
                    if same && hash_of(&ta) != hash_of(&tb) {
                        cs.fail("hash:differs-for-equal", format!("equal arrays {}x{} {:?} hash differently (capacities {} / {})", a.0, a.1, a.2, ta.capacity(), tb.capacity()));
                    }
                    // views compare like their owned copies
                    if a.0 > 0 && b.0 > 0 {
                        let va = ta.view((0, 0), (a.0, a.1));
                        let vb = tb.view((0, 0), (b.0, b.1));
                        if (va == vb) != same {
                            cs.fail("eq:view-wrong", format!("full views of {}x{} {:?} and {}x{} {:?} compare {}", a.0, a.1, a.2, b.0, b.1, b.2, va == vb));
                        }
                    }
                }
            },
        );
    }
}

impl Prop for C20P {
    fn id(&self) -> &'static str {
        "C20"
    }
    fn level(&self) -> &'static str {
        "exploration"
    }
    fn profiles(&self, _tier: Tier) -> Vec<Profile> {
        vec![Profile::Chk, Profile::Wrap, Profile::Rel]
    }
    fn units(&self, tier: Tier) -> Vec<String> {
        let n = n_for(tier);
        let mut v = vec!["newinit U".to_string(), "newinit T".into(), "newinit Z".into(), "zstbig".into(), "zsthuge".into(), "eqhash".into()];
        for c in dim_set(n) {
            v.push(format!("fromvec U {}", c));
            v.push(format!("fromvec T {}", c));
            v.push(format!("viewctor {}", c));
        }
        for (c, r) in shapes(n) {
            v.push(format!("conv U {}x{}", c, r));
            v.push(format!("conv T {}x{}", c, r));
            if c <= 2 && r <= 2 {
                v.push(format!("conv Z {}x{}", c, r));
            }
            if c > 0 && c <= 3 && r <= 3 {
                v.push(format!("survivors {}x{}", c, r));
            }
        }
        v
    }
    fn run_unit(&self, unit: &str, ctx: &mut Ctx) {
        let p: Vec<&str> = unit.split(' ').collect();
        let n = n_for(ctx.tier);
        match p[0] {
            "newinit" => match p[1] {
                "U" => run_new_init::<u32>(n, ctx),
                "T" => run_new_init::<Tracked>(n, ctx),
                _ => run_new_init::<crate::engine::ledger::TrackedZst>(n, ctx),
            },
            "survivors" => {
                let (c, r) = p[1].split_once('x').unwrap();
                run_survivors(c.parse().unwrap(), r.parse().unwrap(), ctx)
            }
            "zstbig" => run_zst_big(ctx),
            "zsthuge" => run_zst_huge(ctx),
            "eqhash" => run_eq_hash(ctx),
            "fromvec" => {
                let c: usize = p[2].parse().unwrap();
                if p[1] == "U" {
                    run_from_vec::<u32>(n, c, ctx)
                } else {
                    run_from_vec::<Tracked>(n, c, ctx)
                }
            }
            "viewctor" => run_view_ctor(n, p[1].parse().unwrap(), ctx),
            _ => {
                let (c, r) = p[2].split_once('x').unwrap();
                let (c, r): (usize, usize) = (c.parse().unwrap(), r.parse().unwrap());
                match p[1] {
                    "U" => run_conversions::<u32>(c, r, ctx),
                    "T" => run_conversions::<Tracked>(c, r, ctx),
                    _ => run_conversions::<crate::engine::ledger::TrackedZst>(c, r, ctx),
                }
            }
        }
    }
    fn rule(&self) -> String {
        "dimension pairs over {0..=N, 2^31, 2^32, 2^32+1, 2^63, usize::MAX/2+1, usize::MAX-1, usize::MAX}^2: new and init (element types u32, Tracked, zero-sized): exactly one zero => panic, overflow => panic, (0,0) => empty, small product => every cell is the default / the given value (huge non-overflowing products are skipped for sized types and executed for () up to 2^20 x 3); \
         from_vec (exact / spare capacity) and from_box for all pairs x every buffer length 0..=N^2+1: accepted iff zero rule, no overflow and c*r == len, then the buffer's cells in row-major order; TooDeeView::new / TooDeeViewMut::new: accepted iff zero rule, no overflow, c*r <= len, cells by address; default / with_capacity => (0,0). \
         Conversions for every shape: Vec::from, Box::from, into_iter() with every (front, back) split and the rest through rev / nth / nth_back / rev+skip / skip+step_by / rev+step_by, AsRef<[T]>, AsRef<Vec<T>>, AsMut, clone() and clone_from() equal and independent, TooDee::from(view | view_mut | view-from-view_mut) for every window; drop ledger balanced. \
         == / Hash: all arrays with <= 4 cells over {0,1} (1x4, 2x2, 4x1 share a length), all pairs: equal iff same dimensions and cells, equal => same DefaultHasher digest also across capacities. \
         Every constructor (new, init, from_vec, from_box, TooDeeView::new, TooDeeViewMut::new over an exact and over a longer buffer) on shapes of () with close to usize::MAX cells must accept them. From<view> also for windows of windows (view of view, view of view_mut, view_mut of view_mut). Arrays over {0.0, NaN}: equal exactly when dimensions agree and cells are pairwise equal, also when both operands are the same object. Owned arrays of owning elements (up to 3x3) that survive an operation in which the k-th call into caller code panicked and was caught (every operation instance and every k): clone() equal, Vec::from / into_iter() yield num_cols*num_rows cells in row-major order. \
         A case is one constructor call / conversion bundle / comparison row; non-trivial = accepted; distinct by arguments."
            .into()
    }
    fn bound(&self, tier: Tier) -> String {
        format!("N = {}", n_for(tier))
    }
    fn assumptions(&self) -> Vec<String> {
        vec!["allocation of huge but non-overflowing sizes is outside the property (it aborts the process)".into()]
    }
}
