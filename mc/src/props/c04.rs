//! C04 - operations on a mutable view never touch cells outside it (differential, bounded-exhaustive).

use toodee::{TooDee, TooDeeOps, TooDeeOpsMut};

use super::ops::{apply_op, ops_for, Op};
use super::recv::{Kt, Recv};
use crate::engine::util::windows_nonempty;
use crate::engine::{guarded, Ctx, Profile, Prop, Tier};
use crate::with_recv;

pub struct C04P;
pub static C04: C04P = C04P;

pub fn key_pattern(pat: u8, i: usize, n: usize) -> u8 {
    match pat {
        0 => i as u8,
        1 => (n - i) as u8,
        2 => 7,
        3 => {
            if i == 0 {
                (n - 1) as u8
            } else if i == n - 1 {
                0
            } else {
                i as u8
            }
        }
        _ => ((i * 7 + 3) % 5) as u8,
    }
}

pub fn parent_with_keys(c: usize, r: usize, pat: u8) -> TooDee<Kt> {
    let n = c * r;
    TooDee::from_vec(c, r, (0..n).map(|i| Kt::new(key_pattern(pat, i, n), i as u16)).collect())
}

impl Prop for C04P {
    fn id(&self) -> &'static str {
        "C04"
    }
    fn level(&self) -> &'static str {
        "exploration"
    }
    fn profiles(&self, _tier: Tier) -> Vec<Profile> {
        vec![Profile::Chk, Profile::Wrap]
    }
    fn units(&self, tier: Tier) -> Vec<String> {
        let mut v = Vec::new();
        match tier {
            Tier::Quick => {
                for (pc, pr) in [(4, 4), (5, 3), (3, 5), (1, 5), (5, 1), (5, 5), (2, 4), (4, 2)] {
                    for (s, e) in windows_nonempty(pc, pr) {
                        v.push(Recv::window(pc, pr, s, e).enc());
                    }
                }
                for (c, r) in crate::engine::util::shapes(4) {
                    if c > 0 {
                        v.push(Recv::direct_long(c, r).enc());
                    }
                }
                // windows with lines of 9 cells (beyond the block sizes of chunked or unrolled loops)
                v.push(Recv::window(11, 3, (1, 0), (10, 3)).enc());
                v.push(Recv::window(11, 4, (1, 1), (10, 3)).enc());
                v.push(Recv::window(3, 11, (0, 1), (2, 10)).enc());
                // ... and of 34 and 67 cells (rows longer than 128 / 256 bytes, not a multiple of 32 cells)
                v.push(Recv::window(36, 3, (1, 0), (35, 3)).enc());
                v.push(Recv::window(70, 2, (2, 0), (69, 2)).enc());
                // a sample of nested windows: every window of the central 3x3 window of a 5x5 parent
                for (s2, e2) in windows_nonempty(3, 3) {
                    v.push(Recv::nested(5, 5, (1, 1), (4, 4), s2, e2).enc());
                }
            }
            Tier::Thorough => {
                for pc in 1..=6 {
                    for pr in 1..=6 {
                        for (s, e) in windows_nonempty(pc, pr) {
                            v.push(Recv::window(pc, pr, s, e).enc());
                        }
                    }
                }
                for (c, r) in crate::engine::util::shapes(6) {
                    if c > 0 {
                        v.push(Recv::direct_long(c, r).enc());
                    }
                }
                for (pc, pr) in [(5, 5), (4, 5), (5, 4)] {
                    for (s, e) in windows_nonempty(pc, pr) {
                        let (wc, wr) = (e.0 - s.0, e.1 - s.1);
                        if wc < 2 && wr < 2 {
                            continue;
                        }
                        for (s2, e2) in windows_nonempty(wc, wr) {
                            v.push(Recv::nested(pc, pr, s, e, s2, e2).enc());
                        }
                    }
                }
            }
        }
        v
    }
    fn run_unit(&self, unit: &str, ctx: &mut Ctx) {
        let rd = Recv::parse(unit);
        let (c, r) = rd.size();
        let cw_max = ctx.tier.pick(3, 5);
        let (s, e) = rd.rect();
        for op in ops_for(c, r, cw_max) {
            let pats: &[u8] = if matches!(op, Op::Sort(..)) { &[0, 1, 2, 3, 4] } else { &[0] };
            for &pat in pats {
                ctx.case(
                    || format!("{} keys#{} {:?}", rd.enc(), pat, op),
                    |cs| {
                        let mut p = parent_with_keys(rd.pc, rd.pr, pat);
                        let before: Vec<Kt> = p.data().to_vec();
                        // the same cells in an owned array
                        let mut cells = Vec::with_capacity(c * r);
                        for y in s.1..e.1 {
                            for x in s.0..e.0 {
                                cells.push(p[(x, y)]);
                            }
                        }
                        let mut o = TooDee::from_vec(c, r, cells);
                        let res_o = guarded(|| apply_op(&mut o, &op));
                        let res_v = guarded(|| with_recv!(p, rd, |x| { apply_op(x, &op) }));
                        if res_v.is_ok() {
                            cs.nontrivial((rd, pat, &op));
                            cs.outcome("accepted");
                        } else {
                            cs.outcome("rejected");
                        }
                        if res_o.is_ok() != res_v.is_ok() {
                            cs.fail(
                                "view-vs-owned:panic-differs",
                                format!("on the view the call {} but on an owned array with the same cells it {}", if res_v.is_ok() { "returned" } else { "panicked" }, if res_o.is_ok() { "returned" } else { "panicked" }),
                            );
                        }
                        if p.size() != (rd.pc, rd.pr) || p.data().len() != before.len() {
                            cs.fail("outside:parent-shape", format!("parent shape changed to {:?}", p.size()));
                            return;
                        }
                        for y in 0..rd.pr {
                            for x in 0..rd.pc {
                                let inside = x >= s.0 && x < e.0 && y >= s.1 && y < e.1;
                                let now = p[(x, y)];
                                if !inside {
                                    if !now.same(&before[y * rd.pc + x]) {
                                        cs.fail("outside:modified", format!("parent cell ({},{}) outside the window changed from tag {} to tag {}", x, y, before[y * rd.pc + x].tag, now.tag));
                                        return;
                                    }
                                } else if !now.same(&o[(x - s.0, y - s.1)]) {
                                    cs.fail(
                                        "inside:differs-from-owned",
                                        format!("window cell ({},{}) holds tag {} but the same call on an owned array gives tag {} (owned result {:?})", x - s.0, y - s.1, now.tag, o[(x - s.0, y - s.1)].tag, o.data().iter().map(|k| k.tag).collect::<Vec<_>>()),
                                    );
                                    return;
                                }
                            }
                        }
                    },
                );
            }
        }
    }
    fn rule(&self) -> String {
        "for every non-empty window (interior, touching each edge, single row/column; nested windows too) of the listed parents, and for views built with TooDeeViewMut::new over a slice longer than cols*rows, and every mutating trait operation with every valid argument \
         (indexed writes, fill, swap/swap_rows/swap_cols/row_pair_mut, writes through rows_mut/col_mut/cells_mut forwards, backwards and via nth/nth_back, copy_from_slice/clone_from_slice/copy_from_toodee/clone_from_toodee from owned and strided sources, copy_within for all rectangles and destinations, all eleven sort entry points x every index x five key patterns, translate_with_wrap for all mids, flips) plus a few invalid tuples: \
         (a) every parent cell outside the rectangle is unchanged, (b) the cells inside equal the result of the same call on an owned TooDee holding the same cells, (c) the call panics on the view iff it panics on the owned array. \
         A case is (receiver, key pattern, operation); non-trivial = accepted call; distinct by all three."
            .into()
    }
    fn bound(&self, tier: Tier) -> String {
        tier.pick(
            "parents 4x4, 5x5, 5x3, 3x5, 2x4, 4x2, 1x5, 5x1 (all non-empty windows), views over a longer slice up to 4x4, nested windows inside the centre of a 5x5; copy_within rectangles up to 3x3",
            "all parents up to 6x6 (all non-empty windows), nested windows of 5x5, 4x5, 5x4 parents; copy_within rectangles up to 5x5",
        )
        .into()
    }
    fn assumptions(&self) -> Vec<String> {
        vec!["oracle (b) is differential: a defect shared by the view and the owned array is invisible here and is covered by C13-C17".into()]
    }
}
