//! C06 - inserting a row or column places it exactly and keeps the rest (bounded-exhaustive).

use toodee::{TooDee, TooDeeOps};

use super::array_bfs::{check_state, materialize_spare, valid_array};
use super::elem::Elem;
use crate::engine::ledger::{self, FaultIter, Tracked, TrackedZst};
use crate::engine::util::{shapes, Model};
use crate::engine::{guarded, Case, Ctx, Profile, Prop, Tier};

pub struct C06P;
pub static C06: C06P = C06P;

fn n_for(t: Tier) -> usize {
    t.pick(6, 12)
}

/// Iterator sources: 0 = Vec, 1 = custom exact-size iterator, 2 = array (len <= 8), 3 = Vec::drain of a longer Vec
const SOURCES: [&str; 6] = ["Vec", "custom", "array", "drain", "lying: claims the length, yields one fewer", "lying: claims the length, yields one more"];

fn arr<E, const K: usize>(it: &mut impl Iterator<Item = E>) -> [E; K] {
    std::array::from_fn(|_| it.next().unwrap())
}

fn do_insert<E: Elem>(t: &mut TooDee<E>, op: &str, i: usize, items: Vec<E>, source: usize) {
    let n = items.len();
    macro_rules! call {
        ($src:expr) => {
            match op {
                "insert_row" => t.insert_row(i, $src),
                "push_row" => t.push_row($src),
                "insert_col" => t.insert_col(i, $src),
                _ => t.push_col($src),
            }
        };
    }
    match source {
        0 => call!(items),
        1 => call!(FaultIter::new(items)),
        2 if n <= 8 => {
            let mut it = items.into_iter();
            match n {
                0 => call!(arr::<E, 0>(&mut it)),
                1 => call!(arr::<E, 1>(&mut it)),
                2 => call!(arr::<E, 2>(&mut it)),
                3 => call!(arr::<E, 3>(&mut it)),
                4 => call!(arr::<E, 4>(&mut it)),
                5 => call!(arr::<E, 5>(&mut it)),
                6 => call!(arr::<E, 6>(&mut it)),
                7 => call!(arr::<E, 7>(&mut it)),
                _ => call!(arr::<E, 8>(&mut it)),
            }
        }
        4 | 5 => {
            // an ExactSizeIterator that reports `n` but yields n-1 (4) or n+1 (5) elements
            let mut items = items;
            if source == 4 {
                items.pop();
            } else {
                items.push(E::make(999));
            }
            call!(FaultIter::lying(items, n))
        }
        3 => {
            // a drain of the middle of a longer Vec (exact-size, double-ended, owning)
            let mut v: Vec<E> = Vec::with_capacity(n + 2);
            v.push(E::make(900));
            v.extend(items);
            v.push(E::make(901));
            call!(v.drain(1..1 + n))
        }
        _ => call!(items),
    }
}

fn run_shape<E: Elem>(c: usize, r: usize, ctx: &mut Ctx) {
    let labels: Vec<u32> = (0..(c * r) as u32).collect();
    for op in ["insert_row", "push_row", "insert_col", "push_col"] {
        let row = op.ends_with("row");
        let (dim, other) = if row { (r, c) } else { (c, r) };
        let indices: Vec<usize> = if op.starts_with("push") { vec![dim] } else { (0..=dim + 1).collect() };
        for &i in &indices {
            for len in 0..=other + 1 {
                for spare in [0usize, 1, 2, 3, 5, 24] {
                    for source in 0..SOURCES.len() {
                        if source == 2 && len > 8 {
                            continue;
                        }
                        ctx.case(
                            || format!("TooDee<{}> {}x{} {} {}({}, {} items from {})", E::NAME, c, r, format!("spare-capacity={}", spare), op, i, len, SOURCES[source]),
                            |cs| {
                                let mut t: TooDee<E> = materialize_spare(c, r, &labels, spare);
                                let mut m: Model<u32> = Model::from_flat(c, r, &labels);
                                let base = (c * r) as u32 + 100;
                                let line: Vec<u32> = (0..len as u32).map(|j| base + j).collect();
                                let items: Vec<E> = line.iter().map(|l| E::make(*l)).collect();
                                let valid = if row { m.insert_row_ok(i, len) } else { m.insert_col_ok(i, len) };
                                let res = guarded(|| do_insert(&mut t, op, i, items, source));
                                // an iterator that yields fewer items than it reports must be rejected (mid-way);
                                // one that yields more may be rejected (debug assertion) or accepted with the
                                // reported number of items
                                let must_panic = !valid || (source == 4 && len > 0);
                                let may_panic = valid && source == 5;
                                let verdict = match (must_panic, res.is_ok()) {
                                    (false, true) => (true, true),
                                    (false, false) if may_panic => (false, false),
                                    (false, false) => (true, false),
                                    (true, ok) => (false, ok),
                                };
                                match verdict {
                                    (true, true) if source == 5 => {
                                        // accepted although the iterator yields more than it reports: WHICH of its
                                        // items end up in the array is not specified; the array must be valid and
                                        // have grown by one line
                                        cs.outcome("inserted-from-long-iterator");
                                        let before = (m.cols, m.rows);
                                        let grew = if row { (if before.1 == 0 { len } else { before.0 }, before.1 + 1) } else { (before.0 + 1, if before.0 == 0 { len } else { before.1 }) };
                                        if len > 0 && t.size() != grew {
                                            cs.fail("insert:dims", format!("size() = {:?}, expected {:?}", t.size(), grew));
                                        }
                                        if valid_array(&t, cs, "after insertion from an over-long iterator") {
                                            drop(t);
                                        } else {
                                            std::mem::forget(t);
                                        }
                                    }
                                    (true, true) => {
                                        cs.outcome("inserted");
                                        cs.nontrivial((E::NAME, c, r, op, i, len, spare, source));
                                        let before = (m.cols, m.rows);
                                        if row {
                                            m.insert_row(i, line);
                                        } else {
                                            m.insert_col(i, line);
                                        }
                                        let grew = if len == 0 && before == (0, 0) { (0, 0) } else if row { (if before.1 == 0 { len } else { before.0 }, before.1 + 1) } else { (before.0 + 1, if before.0 == 0 { len } else { before.1 }) };
                                        if t.size() != grew {
                                            cs.fail("insert:dims", format!("size() = {:?}, expected {:?}", t.size(), grew));
                                        }
                                        if check_state(&t, &m, cs, "after insertion") {
                                            if let Some(live) = E::live() {
                                                if live != (m.cols * m.rows) as u64 {
                                                    cs.fail("insert:ledger", format!("{} elements alive but the array holds {}", live, m.cols * m.rows));
                                                }
                                            }
                                            drop(t);
                                        } else {
                                            std::mem::forget(t);
                                        }
                                    }
                                    (true, false) => {
                                        cs.outcome("spurious-panic");
                                        cs.fail("insert:panics-on-valid", format!("valid insertion panicked: {}", res.unwrap_err()));
                                        std::mem::forget(t);
                                    }
                                    (false, false) => {
                                        cs.outcome("rejected");
                                        if valid_array(&t, cs, "after rejected insertion") {
                                            drop(t);
                                        } else {
                                            std::mem::forget(t);
                                        }
                                    }
                                    (false, true) => {
                                        cs.outcome("accepted-invalid");
                                        cs.fail("insert:accepts-invalid", format!("index {} / length {} is invalid for a {}x{} array, yet the call returned (size now {:?})", i, len, c, r, t.size()));
                                        std::mem::forget(t);
                                    }
                                }
                                if E::TRACKED {
                                    let (dd, gd, first) = ledger::problems();
                                    if dd + gd > 0 {
                                        cs.fail("insert:double-drop", format!("{} double / {} garbage drops: {}", dd, gd, first.unwrap_or_default()));
                                    }
                                    if E::ZST && ledger::zst_dropped() > ledger::zst_created() {
                                        cs.fail("insert:double-drop", format!("{} zero-sized elements dropped, {} created", ledger::zst_dropped(), ledger::zst_created()));
                                    }
                                }
                            },
                        );
                    }
                }
            }
        }
    }
}

/// Arrays of `()` with close to usize::MAX cells: insertion arithmetic must not overflow as long as
/// the result still fits. Only insertions whose work is proportional to the small dimension are run.
fn run_huge_zst(ctx: &mut Ctx) {
    let m = usize::MAX;
    // (cols, rows, insert a row?)
    let cases: Vec<(usize, usize, bool)> = vec![(3, m / 3 - 1, true), (1, m - 1, true), (5, m / 5 - 1, true), (2, m / 2 - 1, true), (m / 3 - 1, 3, false), (m - 1, 1, false), (m / 5 - 1, 5, false), (1 << 31, 1 << 31, false), (1 << 31, 1 << 31, true)];
    for (c, r, row) in cases {
        let (dim, other) = if row { (r, c) } else { (c, r) };
        if other > 8 {
            // the fill loop runs `other` times
            if !(c == 1 << 31) {
                continue;
            }
            continue;
        }
        // only appending (and out-of-range indices): inserting in the middle of such an array may
        // legitimately take time proportional to the huge dimension in a different implementation
        for i in [dim, dim + 1, usize::MAX] {
            for len in [other, other + 1, other.saturating_sub(1)] {
                ctx.case(
                    || format!("TooDee<()> {}x{} {}({}, {} items)", c, r, if row { "insert_row" } else { "insert_col" }, i, len),
                    |cs| {
                        let mut t: TooDee<()> = TooDee::init(c, r, ());
                        let valid = i <= dim && len == other;
                        let items: Vec<()> = vec![(); len];
                        let res = guarded(|| if row { t.insert_row(i, items) } else { t.insert_col(i, items) });
                        match (valid, res.is_ok()) {
                            (true, true) => {
                                cs.outcome("inserted");
                                cs.nontrivial((c, r, row, i, len));
                                let expect = if row { (c, r + 1) } else { (c + 1, r) };
                                if t.size() != expect || t.data().len() != expect.0 * expect.1 {
                                    cs.fail("insert:huge-dims", format!("size {:?} with {} cells, expected {:?}", t.size(), t.data().len(), expect));
                                }
                            }
                            (true, false) => cs.fail("insert:panics-on-valid", format!("valid insertion into a huge zero-sized array panicked: {}", res.unwrap_err())),
                            (false, false) => {
                                cs.outcome("rejected");
                                let (nc, nr) = t.size();
                                if nc.checked_mul(nr) != Some(t.data().len()) || (nc == 0) != (nr == 0) {
                                    cs.fail("invalid-after-reject:len", format!("size {:?} with {} cells", t.size(), t.data().len()));
                                }
                            }
                            (false, true) => cs.fail("insert:accepts-invalid", format!("index {} / length {} accepted, size now {:?}", i, len, t.size())),
                        }
                    },
                );
            }
        }
    }
}

impl Prop for C06P {
    fn id(&self) -> &'static str {
        "C06"
    }
    fn level(&self) -> &'static str {
        "exploration"
    }
    fn profiles(&self, _tier: Tier) -> Vec<Profile> {
        vec![Profile::Chk, Profile::Wrap, Profile::Rel]
    }
    fn units(&self, tier: Tier) -> Vec<String> {
        let mut v = Vec::new();
        for (c, r) in shapes(n_for(tier)) {
            for tag in ["U", "T", "Z"] {
                v.push(format!("{} {}x{}", tag, c, r));
            }
        }
        if tier == Tier::Thorough {
            // arrays of () with close to usize::MAX cells: thorough tier only, because they assume that
            // appending / removing the last line does not take time proportional to the cell count
            v.push("hugezst".into());
        }
        v
    }
    fn run_unit(&self, unit: &str, ctx: &mut Ctx) {
        if unit == "hugezst" {
            run_huge_zst(ctx);
            return;
        }
        let (tag, dims) = unit.split_once(' ').unwrap();
        let (c, r) = dims.split_once('x').unwrap();
        let (c, r): (usize, usize) = (c.parse().unwrap(), r.parse().unwrap());
        match tag {
            "U" => run_shape::<u32>(c, r, ctx),
            "T" => run_shape::<Tracked>(c, r, ctx),
            _ => run_shape::<TrackedZst>(c, r, ctx),
        }
    }
    fn page_guard(&self, tier: Tier, profile: Profile) -> bool {
        let _ = (tier, profile);
        true
    }
    fn rule(&self) -> String {
        "every shape (0..=N)^2 x {insert_row, push_row, insert_col, push_col} x every index 0..=dim+1 x every supplied length 0..=otherdim+1 x element type {u32, Tracked (drop ledger), TrackedZst (zero-sized)} x spare capacity {0, 1, 2, 3, 5, 24} (so that growth is needed, partially needed or not needed) x iterator source {Vec, custom exact-size double-ended iterator, array, Vec::drain, an iterator that yields one item fewer than it reports (must be rejected), one that yields one more (rejected or accepted with the reported count)}; plus insertions into arrays of () with close to usize::MAX cells. \
         Valid per the statement (index <= dim and length == other dim, or array empty) => no panic, result equals the model insertion cell for cell, the dimension grew by one (or stayed (0,0)), ledger balanced; otherwise => panic, and the array is still valid (shape invariant, every cell live and distinct, droppable without a double drop). \
         A case is the full tuple; non-trivial = accepted insertion; distinct by the tuple."
            .into()
    }
    fn bound(&self, tier: Tier) -> String {
        format!("N = {}", n_for(tier))
    }
}
