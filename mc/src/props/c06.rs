//! C06 - inserting a row or column places it exactly and keeps the rest (bounded-exhaustive).

use toodee::{TooDee, TooDeeOps};

use super::array_bfs::{check_state, materialize_spare, valid_array};
use super::elem::Elem;
use crate::engine::ledger::{self, FaultIter, Tracked, TrackedZst};
use crate::engine::util::{shapes, Model};
use crate::engine::{guarded, Case, Ctx, Profile, Prop, Tier};

pub struct C06P;
pub static C06: C06P = C06P;

fn n_for(t: Tier) -> usize {
    t.pick(5, 8)
}

/// Iterator sources: 0 = Vec, 1 = custom exact-size iterator, 2 = array (len <= 8), 3 = Vec::drain of a longer Vec
const SOURCES: [&str; 4] = ["Vec", "custom", "array", "drain"];

fn arr<E, const K: usize>(it: &mut impl Iterator<Item = E>) -> [E; K] {
    std::array::from_fn(|_| it.next().unwrap())
}

fn do_insert<E: Elem>(t: &mut TooDee<E>, op: &str, i: usize, items: Vec<E>, source: usize) {
    let n = items.len();
    macro_rules! call {
        ($src:expr) => {
            match op {
                "insert_row" => t.insert_row(i, $src),
                "push_row" => t.push_row($src),
                "insert_col" => t.insert_col(i, $src),
                _ => t.push_col($src),
            }
        };
    }
    match source {
        0 => call!(items),
        1 => call!(FaultIter::new(items)),
        2 if n <= 8 => {
            let mut it = items.into_iter();
            match n {
                0 => call!(arr::<E, 0>(&mut it)),
                1 => call!(arr::<E, 1>(&mut it)),
                2 => call!(arr::<E, 2>(&mut it)),
                3 => call!(arr::<E, 3>(&mut it)),
                4 => call!(arr::<E, 4>(&mut it)),
                5 => call!(arr::<E, 5>(&mut it)),
                6 => call!(arr::<E, 6>(&mut it)),
                7 => call!(arr::<E, 7>(&mut it)),
                _ => call!(arr::<E, 8>(&mut it)),
            }
        }
        3 => {
            // a drain of the middle of a longer Vec (exact-size, double-ended, owning)
            let mut v: Vec<E> = Vec::with_capacity(n + 2);
            v.push(E::make(900));
            v.extend(items);
            v.push(E::make(901));
            call!(v.drain(1..1 + n))
        }
        _ => call!(items),
    }
}

fn run_shape<E: Elem>(c: usize, r: usize, ctx: &mut Ctx) {
    let labels: Vec<u32> = (0..(c * r) as u32).collect();
    for op in ["insert_row", "push_row", "insert_col", "push_col"] {
        let row = op.ends_with("row");
        let (dim, other) = if row { (r, c) } else { (c, r) };
        let indices: Vec<usize> = if op.starts_with("push") { vec![dim] } else { (0..=dim + 1).collect() };
        for &i in &indices {
            for len in 0..=other + 1 {
                for spare in [0usize, 1, 2, 3, 5, 24] {
                    for source in 0..SOURCES.len() {
                        if source == 2 && len > 8 {
                            continue;
                        }
                        ctx.case(
                            || format!("TooDee<{}> {}x{} {} {}({}, {} items from {})", E::NAME, c, r, format!("spare-capacity={}", spare), op, i, len, SOURCES[source]),
                            |cs| {
                                let mut t: TooDee<E> = materialize_spare(c, r, &labels, spare);
                                let mut m: Model<u32> = Model::from_flat(c, r, &labels);
                                let base = (c * r) as u32 + 100;
                                let line: Vec<u32> = (0..len as u32).map(|j| base + j).collect();
                                let items: Vec<E> = line.iter().map(|l| E::make(*l)).collect();
                                let valid = if row { m.insert_row_ok(i, len) } else { m.insert_col_ok(i, len) };
                                let res = guarded(|| do_insert(&mut t, op, i, items, source));
                                let held_extra = if source == 3 { 0 } else { 0 };
                                let _ = held_extra;
                                match (valid, res.is_ok()) {
                                    (true, true) => {
                                        cs.outcome("inserted");
                                        cs.nontrivial((E::NAME, c, r, op, i, len, spare, source));
                                        let before = (m.cols, m.rows);
                                        if row {
                                            m.insert_row(i, line);
                                        } else {
                                            m.insert_col(i, line);
                                        }
                                        let grew = if len == 0 && before == (0, 0) { (0, 0) } else if row { (if before.1 == 0 { len } else { before.0 }, before.1 + 1) } else { (before.0 + 1, if before.0 == 0 { len } else { before.1 }) };
                                        if t.size() != grew {
                                            cs.fail("insert:dims", format!("size() = {:?}, expected {:?}", t.size(), grew));
                                        }
                                        if check_state(&t, &m, cs, "after insertion") {
                                            if let Some(live) = E::live() {
                                                if live != (m.cols * m.rows) as u64 {
                                                    cs.fail("insert:ledger", format!("{} elements alive but the array holds {}", live, m.cols * m.rows));
                                                }
                                            }
                                            drop(t);
                                        } else {
                                            std::mem::forget(t);
                                        }
                                    }
                                    (true, false) => {
                                        cs.outcome("spurious-panic");
                                        cs.fail("insert:panics-on-valid", format!("valid insertion panicked: {}", res.unwrap_err()));
                                        std::mem::forget(t);
                                    }
                                    (false, false) => {
                                        cs.outcome("rejected");
                                        if valid_array(&t, cs, "after rejected insertion") {
                                            drop(t);
                                        } else {
                                            std::mem::forget(t);
                                        }
                                    }
                                    (false, true) => {
                                        cs.outcome("accepted-invalid");
                                        cs.fail("insert:accepts-invalid", format!("index {} / length {} is invalid for a {}x{} array, yet the call returned (size now {:?})", i, len, c, r, t.size()));
                                        std::mem::forget(t);
                                    }
                                }
                                if E::TRACKED {
                                    let (dd, gd, first) = ledger::problems();
                                    if dd + gd > 0 {
                                        cs.fail("insert:double-drop", format!("{} double / {} garbage drops: {}", dd, gd, first.unwrap_or_default()));
                                    }
                                    if E::ZST && ledger::zst_dropped() > ledger::zst_created() {
                                        cs.fail("insert:double-drop", format!("{} zero-sized elements dropped, {} created", ledger::zst_dropped(), ledger::zst_created()));
                                    }
                                }
                            },
                        );
                    }
                }
            }
        }
    }
}

impl Prop for C06P {
    fn id(&self) -> &'static str {
        "C06"
    }
    fn level(&self) -> &'static str {
        "exploration"
    }
    fn profiles(&self, _tier: Tier) -> Vec<Profile> {
        vec![Profile::Chk, Profile::Wrap, Profile::Rel]
    }
    fn units(&self, tier: Tier) -> Vec<String> {
        let mut v = Vec::new();
        for (c, r) in shapes(n_for(tier)) {
            for tag in ["U", "T", "Z"] {
                v.push(format!("{} {}x{}", tag, c, r));
            }
        }
        v
    }
    fn run_unit(&self, unit: &str, ctx: &mut Ctx) {
        let (tag, dims) = unit.split_once(' ').unwrap();
        let (c, r) = dims.split_once('x').unwrap();
        let (c, r): (usize, usize) = (c.parse().unwrap(), r.parse().unwrap());
        match tag {
            "U" => run_shape::<u32>(c, r, ctx),
            "T" => run_shape::<Tracked>(c, r, ctx),
            _ => run_shape::<TrackedZst>(c, r, ctx),
        }
    }
    fn page_guard(&self, tier: Tier, profile: Profile) -> bool {
        let _ = (tier, profile);
        true
    }
    fn rule(&self) -> String {
        "every shape (0..=N)^2 x {insert_row, push_row, insert_col, push_col} x every index 0..=dim+1 x every supplied length 0..=otherdim+1 x element type {u32, Tracked (drop ledger), TrackedZst (zero-sized)} x spare capacity {0, 1, 2, 3, 5, 24} (so that growth is needed, partially needed or not needed) x iterator source {Vec, custom exact-size double-ended iterator, array, Vec::drain}. \
         Valid per the statement (index <= dim and length == other dim, or array empty) => no panic, result equals the model insertion cell for cell, the dimension grew by one (or stayed (0,0)), ledger balanced; otherwise => panic, and the array is still valid (shape invariant, every cell live and distinct, droppable without a double drop). \
         A case is the full tuple; non-trivial = accepted insertion; distinct by the tuple."
            .into()
    }
    fn bound(&self, tier: Tier) -> String {
        format!("N = {}", n_for(tier))
    }
}
