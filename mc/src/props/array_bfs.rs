//! Explicit-state search over the canonical states of an owned `TooDee<E>` (C01 with E = u32,
//! C05 with E = Tracked / TrackedZst). Every transition is an execution of toodee's real code
//! on a freshly materialised array; see DESIGN.md 3.2 for the state-key argument.

use std::collections::HashSet;

use toodee::{SortOps, TooDee, TooDeeOps, TooDeeOpsMut, TranslateOps};

use super::elem::Elem;
use crate::engine::ledger::{self, Tracked, TrackedZst};
use crate::engine::util::{rank_compress, shapes_cells, windows, Model};
use crate::engine::{guarded, Case, Ctx, Tier};

pub const SPARE: usize = 24;

#[derive(Clone, Debug, PartialEq, Eq)]
pub struct Act {
    pub op: String,
    pub a: Vec<usize>,
    /// capacity variant forced before the call: 'x' exact, 's' spare, '-' leave
    pub cap: char,
}
impl Act {
    pub fn new(op: &str, a: &[usize]) -> Act {
        Act { op: op.to_string(), a: a.to_vec(), cap: '-' }
    }
    pub fn enc(&self) -> String {
        let mut s = self.op.clone();
        for x in &self.a {
            s.push('.');
            s.push_str(&x.to_string());
        }
        if self.cap != '-' {
            s.push('@');
            s.push(self.cap);
        }
        s
    }
    pub fn parse(s: &str) -> Act {
        let (body, cap) = match s.split_once('@') {
            Some((b, c)) => (b, c.chars().next().unwrap_or('-')),
            None => (s, '-'),
        };
        let mut it = body.split('.');
        let op = it.next().unwrap_or("").to_string();
        let a = it.map(|x| x.parse::<usize>().expect("bad action argument")).collect();
        Act { op, a, cap }
    }
}

pub fn key_string(tag: char, c: usize, r: usize, labels: &[u32]) -> String {
    use std::fmt::Write;
    let mut s = String::with_capacity(16 + labels.len() * 3);
    let _ = write!(s, "{}|{},{}|", tag, c, r);
    if tag != 'Z' {
        for (i, x) in rank_compress(labels).iter().enumerate() {
            if i > 0 {
                s.push(',');
            }
            let _ = write!(s, "{}", x);
        }
    }
    s
}
pub fn parse_key(key: &str) -> (char, usize, usize, Vec<u32>) {
    let mut p = key.split('|');
    let tag = p.next().unwrap().chars().next().unwrap();
    let dims = p.next().unwrap();
    let (c, r) = dims.split_once(',').unwrap();
    let ls = p.next().unwrap_or("");
    let labels = if ls.is_empty() { Vec::new() } else { ls.split(',').map(|x| x.parse().unwrap()).collect() };
    (tag, c.parse().unwrap(), r.parse().unwrap(), labels)
}

pub fn tag_of<E: Elem>() -> char {
    if E::ZST {
        'Z'
    } else if E::TRACKED {
        'T'
    } else {
        'U'
    }
}

pub fn materialize<E: Elem>(c: usize, r: usize, labels: &[u32], spare: bool) -> TooDee<E> {
    materialize_spare(c, r, labels, if spare { SPARE } else { 0 })
}

/// As `materialize`, with exactly `spare` elements of spare capacity.
pub fn materialize_spare<E: Elem>(c: usize, r: usize, labels: &[u32], spare: usize) -> TooDee<E> {
    let n = c * r;
    let mut v: Vec<E> = Vec::with_capacity(n + spare);
    for i in 0..n {
        v.push(E::make(if E::ZST { 0 } else { labels[i] }));
    }
    TooDee::from_vec(c, r, v)
}

fn model_of(c: usize, r: usize, labels: &[u32]) -> Model<u32> {
    if labels.len() == c * r {
        Model::from_flat(c, r, labels)
    } else {
        Model::from_flat(c, r, &vec![0; c * r])
    }
}

/// C01's oracle on one state. Returns false (after recording failures) if the array is not a
/// faithful image of the model.
pub fn check_state<E: Elem>(t: &TooDee<E>, m: &Model<u32>, c: &mut Case, what: &str) -> bool {
    let (nc, nr) = (t.num_cols(), t.num_rows());
    let len = t.data().len();
    if nc.checked_mul(nr) != Some(len) {
        c.fail("shape:len", format!("{}: num_cols*num_rows = {}*{} but data().len() = {}", what, nc, nr, len));
        return false;
    }
    if (nc == 0) != (nr == 0) {
        c.fail("shape:zero-rule", format!("{}: size() = ({},{}) has exactly one zero dimension", what, nc, nr));
        return false;
    }
    if t.capacity() < len && !E::ZST {
        c.fail("shape:capacity", format!("{}: capacity {} < len {}", what, t.capacity(), len));
        return false;
    }
    let mut ok = true;
    if t.rows().len() != nr {
        c.fail("shape:rows-len", format!("{}: rows().len() = {} but num_rows() = {}", what, t.rows().len(), nr));
        ok = false;
    }
    if t.cells().len() != nc * nr {
        c.fail("shape:cells-len", format!("{}: cells().len() = {} but area = {}", what, t.cells().len(), nc * nr));
        ok = false;
    }
    for col in 0..nc {
        let l = t.col(col).len();
        if l != nr {
            c.fail("shape:col-len", format!("{}: col({}).len() = {} but num_rows() = {}", what, col, l, nr));
            ok = false;
        }
    }
    if (nc, nr) != (m.cols, m.rows) {
        c.fail("model:dims", format!("{}: size() = ({},{}) but the model has ({},{})", what, nc, nr, m.cols, m.rows));
        return false;
    }
    if !ok {
        return false;
    }
    let mut ids: HashSet<u64> = HashSet::new();
    for r in 0..nr {
        for col in 0..nc {
            let e = &t[(col, r)];
            if !e.sane() {
                c.fail("cell:dead", format!("{}: cell ({},{}) holds a dead or never-constructed element {:?}", what, col, r, e));
                return false;
            }
            if let Some(id) = e.ident() {
                if !ids.insert(id) {
                    c.fail("cell:duplicate", format!("{}: element id {} reachable through two cells", what, id));
                    return false;
                }
            }
            if !E::ZST && e.label() != *m.get(col, r) {
                c.fail(
                    "model:cells",
                    format!("{}: cell ({},{}) = {} but the model has {} (array {:?}, model {:?})", what, col, r, e.label(), m.get(col, r), t.data().iter().map(|e| e.label()).collect::<Vec<_>>(), m.flat()),
                );
                return false;
            }
            if !E::ZST && t.data()[r * nc + col].label() != e.label() {
                c.fail("model:data-order", format!("{}: data()[{}] differs from cell ({},{})", what, r * nc + col, col, r));
                return false;
            }
        }
    }
    true
}

/// "A valid array" after a rejected / faulted call: shape invariant, every cell live and distinct.
pub fn valid_array<E: Elem>(t: &TooDee<E>, c: &mut Case, what: &str) -> bool {
    let (nc, nr) = (t.num_cols(), t.num_rows());
    if nc.checked_mul(nr) != Some(t.data().len()) {
        c.fail("invalid-after-reject:len", format!("{}: size ({},{}) but data().len() = {}", what, nc, nr, t.data().len()));
        return false;
    }
    if (nc == 0) != (nr == 0) {
        c.fail("invalid-after-reject:zero-rule", format!("{}: size ({},{})", what, nc, nr));
        return false;
    }
    let mut ids = HashSet::new();
    for e in t.data() {
        if !e.sane() {
            c.fail("invalid-after-reject:dead-cell", format!("{}: a cell holds a dead element {:?}", what, e));
            return false;
        }
        if let Some(id) = e.ident() {
            if !ids.insert(id) {
                c.fail("invalid-after-reject:duplicate", format!("{}: element {} reachable twice", what, id));
                return false;
            }
        }
    }
    true
}

fn next_label(m: &Model<u32>) -> u32 {
    m.cells.iter().flat_map(|r| r.iter()).copied().max().map(|x| x + 1).unwrap_or(0)
}

/// Executes one action on the live array and on the model. Returns Ok(panicked).
pub fn apply<E: Elem>(t: &mut TooDee<E>, m: &mut Model<u32>, act: &Act, c: &mut Case) -> bool {
    match act.cap {
        'x' => t.shrink_to_fit(),
        's' => t.reserve(SPARE),
        '1' | '2' => {
            // exactly 1 / 2 elements of spare capacity (partial: less than most lines need)
            t.shrink_to_fit();
            t.reserve_exact(act.cap as usize - '0' as usize);
        }
        _ => {}
    }
    let a = &act.a;
    let base = next_label(m);
    let line = |n: usize| -> Vec<u32> { (0..n).map(|j| base + j as u32).collect() };
    let mk = |n: usize| -> Vec<E> { (0..n).map(|j| E::make(base + j as u32)).collect() };
    let (mc, mr) = (m.cols, m.rows);
    let r: Result<(), String> = match act.op.as_str() {
        "ir" | "pr" => {
            let (i, n) = if act.op == "ir" { (a[0], a[1]) } else { (mr, a[0]) };
            if m.insert_row_ok(i, n) {
                m.insert_row(i, line(n));
            }
            let items = mk(n);
            if act.op == "ir" {
                guarded(|| t.insert_row(i, items))
            } else {
                guarded(|| t.push_row(items))
            }
        }
        "ic" | "pc" => {
            let (i, n) = if act.op == "ic" { (a[0], a[1]) } else { (mc, a[0]) };
            if m.insert_col_ok(i, n) {
                m.insert_col(i, line(n));
            }
            let items = mk(n);
            if act.op == "ic" {
                guarded(|| t.insert_col(i, items))
            } else {
                guarded(|| t.push_col(items))
            }
        }
        "rr" | "qr" | "rc" | "qc" => {
            let row = act.op == "rr" || act.op == "qr";
            let pop = act.op.starts_with('q');
            let (i, f, b) = if pop { (if row { mr.wrapping_sub(1) } else { mc.wrapping_sub(1) }, a[0], a[1]) } else { (a[0], a[1], a[2]) };
            let dim = if row { mr } else { mc };
            let expect: Option<Vec<u32>> = if i < dim { Some(if row { m.remove_row(i) } else { m.remove_col(i) }) } else { None };
            let mut got_f: Vec<u32> = Vec::new();
            let mut got_b: Vec<u32> = Vec::new();
            let mut lens: Vec<usize> = Vec::new();
            let mut none_from_pop = false;
            let res = guarded(|| {
                // the yielded elements are held until after the drain is gone
                let mut held: Vec<E> = Vec::new();
                macro_rules! consume {
                    ($d:expr) => {{
                        let mut d = $d;
                        lens.push(d.len());
                        for _ in 0..f {
                            if let Some(e) = d.next() {
                                got_f.push(e.label());
                                held.push(e);
                            }
                            lens.push(d.len());
                        }
                        for _ in 0..b {
                            if let Some(e) = d.next_back() {
                                got_b.push(e.label());
                                held.push(e);
                            }
                            lens.push(d.len());
                        }
                        drop(d);
                    }};
                }
                match (row, pop) {
                    (true, false) => consume!(t.remove_row(i)),
                    (false, false) => consume!(t.remove_col(i)),
                    (true, true) => match t.pop_row() {
                        Some(d) => consume!(d),
                        None => none_from_pop = true,
                    },
                    (false, true) => match t.pop_col() {
                        Some(d) => consume!(d),
                        None => none_from_pop = true,
                    },
                }
                drop(held);
            });
            // what the drain yields is C07's subject; here only the array afterwards matters
            let _ = (&got_f, &got_b, &lens, none_from_pop, &expect);
            res
        }
        "rrx" | "rcx" => {
            // remove a line and consume the drain through nth / adaptors built on nth (mode a[1])
            let row = act.op == "rrx";
            let (i, mode) = (a[0], a[1]);
            let dim = if row { mr } else { mc };
            let expect: Option<Vec<u32>> = if i < dim { Some(if row { m.remove_row(i) } else { m.remove_col(i) }) } else { None };
            let mut got: Vec<u32> = Vec::new();
            let mut count: Option<usize> = None;
            let res = guarded(|| {
                let mut held: Vec<E> = Vec::new();
                macro_rules! consume {
                    ($d:expr) => {{
                        let mut d = $d;
                        match mode {
                            0 => held.extend(d.nth(1)),
                            1 => held.extend(d.nth_back(1)),
                            2 => held.extend(d.by_ref().skip(1).step_by(2)),
                            3 => held.extend(d.by_ref().rev().skip(1)),
                            4 => held.extend(d.by_ref().last()),
                            5 => count = Some(d.by_ref().count()),
                            // consumption that runs INTO and PAST the point where the two ends meet
                            6 => {
                                held.extend(d.next());
                                while let Some(e) = d.next_back() {
                                    held.push(e);
                                }
                                held.extend(d.next_back());
                                held.extend(d.next());
                            }
                            7 => {
                                held.extend(d.next_back());
                                while let Some(e) = d.next() {
                                    held.push(e);
                                }
                                held.extend(d.next());
                                held.extend(d.next_back());
                            }
                            8 => {
                                held.extend(d.next());
                                held.extend(d.by_ref().rev());
                                held.extend(d.next_back());
                            }
                            _ => loop {
                                let a = d.next();
                                let b = d.next_back();
                                let done = a.is_none() && b.is_none();
                                held.extend(a);
                                held.extend(b);
                                if done {
                                    break;
                                }
                            },
                        }
                        drop(d);
                    }};
                }
                if row {
                    consume!(t.remove_row(i))
                } else {
                    consume!(t.remove_col(i))
                }
                got = held.iter().map(|e| e.label()).collect();
                drop(held);
            });
            let _ = (&got, count, &expect);
            res
        }
        "irl" | "icl" => {
            // insertion from an iterator that LIES about its length (claims the expected length but
            // yields one element fewer (mode 0) or one more (mode 1)): rejected mid-way, or - without
            // debug assertions and in mode 1 - accepted. The array may lose elements (leak
            // amplification); its state is read back afterwards.
            let row = act.op == "irl";
            let (i, mode) = (a[0], a[1]);
            let other = if row { mc } else { mr };
            let claim = if other == 0 { 2 } else { other };
            let n = if mode == 0 { claim - 1 } else { claim + 1 };
            let items = mk(n);
            let it = crate::engine::ledger::FaultIter::lying(items, claim);
            // a third argument of 1 selects push_row / push_col (which may have their own code path)
            let push = a.get(2) == Some(&1);
            let res = match (row, push) {
                (true, false) => guarded(|| t.insert_row(i, it)),
                (false, false) => guarded(|| t.insert_col(i, it)),
                (true, true) => guarded(|| t.push_row(it)),
                (false, true) => guarded(|| t.push_col(it)),
            };
            let (nc, nr) = (t.num_cols(), t.num_rows());
            if nc.checked_mul(nr) == Some(t.data().len()) && (nc == 0) == (nr == 0) {
                *m = Model::from_flat(nc, nr, &t.data().iter().map(|e| e.label()).collect::<Vec<_>>());
            }
            res
        }
        "lr" | "lc" => {
            // take f from the front and b from the back of the drain, then LEAK it (mem::forget).
            // The property allows the array to lose elements; its state afterwards is read back.
            let row = act.op == "lr";
            let (i, f, b) = (a[0], a[1], a[2]);
            let res = guarded(|| {
                let mut held: Vec<E> = Vec::new();
                macro_rules! leak {
                    ($d:expr) => {{
                        let mut d = $d;
                        for _ in 0..f {
                            held.extend(d.next());
                        }
                        for _ in 0..b {
                            held.extend(d.next_back());
                        }
                        std::mem::forget(d);
                    }};
                }
                if row {
                    leak!(t.remove_row(i))
                } else {
                    leak!(t.remove_col(i))
                }
                drop(held);
            });
            let (nc, nr) = (t.num_cols(), t.num_rows());
            if nc.checked_mul(nr) == Some(t.data().len()) && (nc == 0) == (nr == 0) {
                *m = Model::from_flat(nc, nr, &t.data().iter().map(|e| e.label()).collect::<Vec<_>>());
            }
            res
        }
        "cfs" | "cft" => {
            // clone_from_slice / clone_from_toodee from a source of size a[0] x a[1] (fresh elements)
            let (sc2, sr2) = (a[0], a[1]);
            let n = sc2 * sr2;
            let valid = if act.op == "cfs" { n == mc * mr } else { (sc2, sr2) == (mc, mr) };
            if valid {
                let l = line(n);
                *m = Model::from_flat(mc, mr, &l);
            }
            let items = mk(n);
            if act.op == "cfs" {
                guarded(|| toodee::CopyOps::clone_from_slice(t, &items))
            } else if (sc2 == 0) != (sr2 == 0) {
                // no such source array can exist
                drop(items);
                Err("no source".into())
            } else {
                let src = TooDee::from_vec(sc2, sr2, items);
                guarded(|| toodee::CopyOps::clone_from_toodee(t, &src))
            }
        }
        "clf" => {
            // Clone::clone_from from a fresh source array of shape a[0] x a[1]
            let (sc2, sr2) = (a[0], a[1]);
            if (sc2 == 0) != (sr2 == 0) {
                return false;
            }
            let l = line(sc2 * sr2);
            *m = Model::from_flat(sc2, sr2, &l);
            let src: TooDee<E> = TooDee::from_vec(sc2, sr2, mk(sc2 * sr2));
            guarded(|| t.clone_from(&src))
        }
        "clr" => {
            m.clear();
            guarded(|| t.clear())
        }
        "sd" => {
            m.swap_dimensions();
            guarded(|| t.swap_dimensions())
        }
        "rsv" | "rsx" => {
            if act.op == "rsv" {
                guarded(|| t.reserve(a[0]))
            } else {
                guarded(|| t.reserve_exact(a[0]))
            }
        }
        "shr" => guarded(|| t.shrink_to_fit()),
        "fill" => {
            for row in m.cells.iter_mut() {
                for x in row.iter_mut() {
                    *x = base;
                }
            }
            let v = E::make(base);
            guarded(|| t.fill(v))
        }
        "swp" => {
            if a[0] < mc && a[2] < mc && a[1] < mr && a[3] < mr {
                m.swap((a[0], a[1]), (a[2], a[3]));
            }
            guarded(|| t.swap((a[0], a[1]), (a[2], a[3])))
        }
        "swr" => {
            if a[0] < mr && a[1] < mr {
                m.swap_rows(a[0], a[1]);
            }
            guarded(|| t.swap_rows(a[0], a[1]))
        }
        "swc" => {
            if a[0] < mc && a[1] < mc {
                m.swap_cols(a[0], a[1]);
            }
            guarded(|| t.swap_cols(a[0], a[1]))
        }
        "flr" => {
            m.flip_rows();
            guarded(|| t.flip_rows())
        }
        "flc" => {
            m.flip_cols();
            guarded(|| t.flip_cols())
        }
        "trn" => {
            if a[0] <= mc && a[1] <= mr && mc > 0 {
                m.translate(a[0], a[1]);
            }
            guarded(|| t.translate_with_wrap((a[0], a[1])))
        }
        "srt" => {
            if a[0] < mr {
                m.sort_cols_stable_by(a[0], |l| *l);
            }
            guarded(|| t.sort_row_ord::<()>(a[0]))
        }
        "sct" => {
            if a[0] < mc {
                m.sort_rows_stable_by(a[0], |l| *l);
            }
            guarded(|| t.sort_col_ord::<()>(a[0]))
        }
        "cpw" => {
            // src (a0,a1)-(a2,a3) to dest (a4,a5)
            let valid = a[0] <= a[2] && a[1] <= a[3] && a[2] <= mc && a[3] <= mr && a[4] + (a[2] - a[0]) <= mc && a[5] + (a[3] - a[1]) <= mr;
            if valid {
                let old = m.cells.clone();
                for y in 0..(a[3] - a[1]) {
                    for x in 0..(a[2] - a[0]) {
                        m.cells[a[5] + y][a[4] + x] = old[a[1] + y][a[0] + x];
                    }
                }
            }
            guarded(|| {
                E::try_copy_within(t, ((a[0], a[1]), (a[2], a[3])), (a[4], a[5]));
            })
        }
        "wr" => {
            if a[0] < mc && a[1] < mr {
                m.cells[a[1]][a[0]] = base;
            }
            let v = E::make(base);
            guarded(|| {
                t[(a[0], a[1])] = v;
            })
        }
        "wrr" => {
            // write through Index<usize> (row) then column
            if a[0] < mc && a[1] < mr {
                m.cells[a[1]][a[0]] = base;
            }
            let v = E::make(base);
            guarded(|| {
                t[a[1]][a[0]] = v;
            })
        }
        "dm" => {
            if a[0] < mc * mr {
                m.cells[a[0] / mc][a[0] % mc] = base;
            }
            let v = E::make(base);
            guarded(|| {
                t.data_mut()[a[0]] = v;
            })
        }
        other => panic!("unknown action {}", other),
    };
    r.is_err()
}

/// The alphabet enabled in a state of shape (c, r).
pub fn actions(c: usize, r: usize, copy: bool, leaks: bool) -> Vec<Act> {
    let mut v: Vec<Act> = Vec::new();
    for i in 0..=r + 1 {
        for n in 0..=c + 1 {
            v.push(Act::new("ir", &[i, n]));
        }
    }
    for i in 0..=c + 1 {
        for n in 0..=r + 1 {
            v.push(Act::new("ic", &[i, n]));
        }
    }
    for mode in 0..2 {
        for i in 0..=r {
            v.push(Act::new("irl", &[i, mode]));
        }
        for i in 0..=c {
            v.push(Act::new("icl", &[i, mode]));
        }
        v.push(Act::new("irl", &[r, mode, 1]));
        v.push(Act::new("icl", &[c, mode, 1]));
    }
    for n in 0..=c + 1 {
        v.push(Act::new("pr", &[n]));
    }
    for n in 0..=r + 1 {
        v.push(Act::new("pc", &[n]));
    }
    let splits = |len: usize| -> Vec<(usize, usize)> {
        let mut s = Vec::new();
        for f in 0..=len {
            for b in 0..=(len - f) {
                s.push((f, b));
            }
        }
        s
    };
    for i in 0..=r {
        if i == r {
            v.push(Act::new("rr", &[i, 0, 0]));
        } else {
            for (f, b) in splits(c) {
                v.push(Act::new("rr", &[i, f, b]));
            }
        }
    }
    for i in 0..=c {
        if i == c {
            v.push(Act::new("rc", &[i, 0, 0]));
        } else {
            for (f, b) in splits(r) {
                v.push(Act::new("rc", &[i, f, b]));
            }
        }
    }
    for (f, b) in splits(c) {
        v.push(Act::new("qr", &[f, b]));
    }
    for (f, b) in splits(r) {
        v.push(Act::new("qc", &[f, b]));
    }
    if leaks {
        for i in 0..r {
            for mode in 0..10 {
                v.push(Act::new("rrx", &[i, mode]));
            }
            for (f, b) in splits(c) {
                v.push(Act::new("lr", &[i, f, b]));
            }
        }
        for i in 0..c {
            for mode in 0..10 {
                v.push(Act::new("rcx", &[i, mode]));
            }
            for (f, b) in splits(r) {
                v.push(Act::new("lc", &[i, f, b]));
            }
        }
    }
    v.push(Act::new("clr", &[]));
    v.push(Act::new("sd", &[]));
    v.push(Act::new("rsv", &[1]));
    v.push(Act::new("rsv", &[SPARE]));
    v.push(Act::new("rsx", &[1]));
    v.push(Act::new("shr", &[]));
    v.push(Act::new("fill", &[]));
    v.push(Act::new("cfs", &[c, r]));
    v.push(Act::new("cfs", &[c + 1, r]));
    v.push(Act::new("cft", &[c, r]));
    v.push(Act::new("cft", &[r, c + 1]));
    // clone_from: same shape, transposed shape (same cell count), a flat row, empty, larger, smaller
    let mut srcs: Vec<(usize, usize)> = vec![(c, r), (r, c), (0, 0), (c + 1, r.max(1)), (1, 1)];
    if c * r > 0 {
        srcs.push((c * r, 1));
    }
    if r > 1 {
        srcs.push((c, r - 1));
    }
    srcs.sort_unstable();
    srcs.dedup();
    for (c2, r2) in srcs {
        v.push(Act::new("clf", &[c2, r2]));
    }
    v.push(Act::new("flr", &[]));
    v.push(Act::new("flc", &[]));
    // in-place algorithms: one in-range and one out-of-range tuple each
    if c > 0 {
        v.push(Act::new("swp", &[0, 0, c - 1, r - 1]));
        v.push(Act::new("swr", &[0, r - 1]));
        v.push(Act::new("swr", &[r - 1, 0]));
        v.push(Act::new("swc", &[0, c - 1]));
        v.push(Act::new("trn", &[1.min(c), 1.min(r)]));
        v.push(Act::new("trn", &[c - 1, r - 1]));
        v.push(Act::new("srt", &[0]));
        v.push(Act::new("srt", &[r - 1]));
        v.push(Act::new("sct", &[0]));
        v.push(Act::new("sct", &[c - 1]));
        v.push(Act::new("wr", &[c - 1, r - 1]));
        v.push(Act::new("wrr", &[0, 0]));
        v.push(Act::new("dm", &[c * r - 1]));
        if copy {
            v.push(Act::new("cpw", &[0, 0, 1, 1, c - 1, r - 1]));
            v.push(Act::new("cpw", &[0, 0, c, r, 0, 0]));
        }
    }
    v.push(Act::new("swp", &[c, 0, 0, 0]));
    v.push(Act::new("swp", &[0, 0, 0, r]));
    v.push(Act::new("swr", &[0, r]));
    v.push(Act::new("swr", &[r, r]));
    v.push(Act::new("swc", &[c, 0]));
    v.push(Act::new("trn", &[c + 1, 0]));
    v.push(Act::new("trn", &[0, r + 1]));
    v.push(Act::new("srt", &[r]));
    v.push(Act::new("sct", &[c]));
    v.push(Act::new("wr", &[c, 0]));
    v.push(Act::new("wr", &[0, r]));
    v.push(Act::new("wrr", &[c, 0]));
    v.push(Act::new("dm", &[c * r]));
    if copy {
        v.push(Act::new("cpw", &[0, 0, c, r, 1, 0]));
        v.push(Act::new("cpw", &[0, 0, c + 1, r, 0, 0]));
    }
    v
}

pub struct Bounds {
    pub cells: usize,
    pub dim: usize,
}

/// Terminal actions of C05 (consume the array); encoded like actions.
pub fn terminals(c: usize, r: usize) -> Vec<Act> {
    let mut v = vec![Act::new("t.drop", &[]), Act::new("t.clone", &[0]), Act::new("t.clone", &[1]), Act::new("t.vec", &[]), Act::new("t.box", &[])];
    let n = c * r;
    for f in 0..=n {
        for b in 0..=(n - f) {
            v.push(Act::new("t.iter", &[f, b]));
        }
    }
    for (s, e) in windows(c, r) {
        v.push(Act::new("t.view", &[s.0, s.1, e.0, e.1]));
        v.push(Act::new("t.viewmut", &[s.0, s.1, e.0, e.1]));
    }
    v
}

fn ledger_clean<E: Elem>(c: &mut Case, what: &str, expect_live: u64, leak_matters: bool) {
    if !E::TRACKED {
        return;
    }
    let (dd, gd, first) = ledger::problems();
    if dd > 0 {
        c.fail("drop:double", format!("{}: {} double drop(s): {}", what, dd, first.clone().unwrap_or_default()));
    }
    if gd > 0 {
        c.fail("drop:garbage", format!("{}: {} drop(s) of never-constructed values: {}", what, gd, first.unwrap_or_default()));
    }
    if E::ZST && ledger::zst_dropped() > ledger::zst_created() {
        c.fail("drop:double", format!("{}: {} zero-sized elements dropped but only {} created", what, ledger::zst_dropped(), ledger::zst_created()));
        return;
    }
    if let Some(live) = E::live() {
        if live < expect_live {
            c.fail("drop:early", format!("{}: only {} element(s) alive but {} are still reachable", what, live, expect_live));
        } else if leak_matters && live > expect_live {
            c.fail("drop:leak", format!("{}: {} element(s) alive but only {} reachable (nothing panicked, nothing was leaked)", what, live, expect_live));
        }
    }
}

fn run_terminal<E: Elem>(t: TooDee<E>, m: &Model<u32>, act: &Act, c: &mut Case) {
    let a = &act.a;
    let flat = m.flat();
    let what = act.enc();
    match act.op.as_str() {
        "t.drop" => drop(t),
        "t.clone" => {
            let t2 = t.clone();
            check_state(&t2, m, c, "clone");
            // clone is independent: disjoint identities
            if E::TRACKED && !E::ZST {
                let ids: HashSet<u64> = t.data().iter().filter_map(|e| e.ident()).collect();
                if t2.data().iter().filter_map(|e| e.ident()).any(|i| ids.contains(&i)) {
                    c.fail("clone:shared", format!("{}: clone shares an element with the original", what));
                }
            }
            if a[0] == 0 {
                drop(t);
                check_state(&t2, m, c, "clone after original dropped");
                drop(t2);
            } else {
                drop(t2);
                check_state(&t, m, c, "original after clone dropped");
                drop(t);
            }
        }
        "t.vec" => {
            let v: Vec<E> = t.into();
            if !E::ZST && v.iter().map(|e| e.label()).collect::<Vec<_>>() != flat {
                c.fail("conv:vec", format!("{}: Vec::from gives {:?}, expected {:?}", what, v, flat));
            }
            if v.len() != flat.len() || v.iter().any(|e| !e.sane()) {
                c.fail("conv:vec", format!("{}: Vec::from gives {} elements ({:?}), expected {}", what, v.len(), v, flat.len()));
            }
        }
        "t.box" => {
            let v: Box<[E]> = t.into();
            if !E::ZST && v.iter().map(|e| e.label()).collect::<Vec<_>>() != flat {
                c.fail("conv:box", format!("{}: Box::from gives {:?}, expected {:?}", what, v, flat));
            }
            if v.len() != flat.len() || v.iter().any(|e| !e.sane()) {
                c.fail("conv:box", format!("{}: Box::from gives {} elements, expected {}", what, v.len(), flat.len()));
            }
        }
        "t.iter" => {
            let mut it = t.into_iter();
            let mut held: Vec<E> = Vec::new();
            let mut gf = Vec::new();
            let mut gb = Vec::new();
            for _ in 0..a[0] {
                if let Some(e) = it.next() {
                    gf.push(e.label());
                    held.push(e);
                }
            }
            for _ in 0..a[1] {
                if let Some(e) = it.next_back() {
                    gb.push(e.label());
                    held.push(e);
                }
            }
            let ef: Vec<u32> = flat.iter().take(a[0]).copied().collect();
            let eb: Vec<u32> = flat.iter().rev().take(a[1]).copied().collect();
            if held.len() != a[0] + a[1] || (!E::ZST && (gf != ef || gb != eb)) {
                c.fail("conv:into_iter", format!("{}: into_iter yielded front {:?} back {:?}, expected {:?} / {:?}", what, gf, gb, ef, eb));
            }
            if held.iter().any(|e| !e.sane()) {
                c.fail("conv:into_iter", format!("{}: into_iter yielded a dead element", what));
            }
            drop(it);
            drop(held);
        }
        "t.view" | "t.viewmut" => {
            let mut t = t;
            let (s, e) = ((a[0], a[1]), (a[2], a[3]));
            let w = m.window(s, e);
            let copy: TooDee<E> = if act.op == "t.view" { TooDee::from(t.view(s, e)) } else { TooDee::from(t.view_mut(s, e)) };
            check_state(&copy, &w, c, "From<view>");
            check_state(&t, m, c, "source after From<view>");
            ledger_clean::<E>(c, "From<view>", (m.cols * m.rows + w.cols * w.rows) as u64, true);
            drop(t);
            check_state(&copy, &w, c, "From<view> after source dropped");
            drop(copy);
        }
        other => panic!("unknown terminal {}", other),
    }
}

/// Expands one state: every action x both capacity variants.
pub fn expand<E: Elem>(key: &str, ctx: &mut Ctx, bounds: &Bounds, with_terminals: bool) {
    let (tag, sc, sr, labels) = parse_key(key);
    debug_assert_eq!(tag, tag_of::<E>());
    let acts = actions(sc, sr, !E::TRACKED, with_terminals);
    // successors already reported for this state (the driver deduplicates across states)
    let mut emitted: HashSet<String> = HashSet::new();
    for act in acts.iter() {
        // insertions additionally run with partial spare capacity (1 and 2 elements)
        // (only for insertions that pass the argument checks: the others panic before any growth)
        let inserting = match act.op.as_str() {
            "ir" => act.a[0] <= sr && (sr == 0 || act.a[1] == sc),
            "pr" => sr == 0 || act.a[0] == sc,
            "ic" => act.a[0] <= sc && (sc == 0 || act.a[1] == sr),
            "pc" => sc == 0 || act.a[0] == sr,
            _ => false,
        };
        let caps: &[char] = if inserting { &['x', 's', '1', '2'] } else { &['x', 's'] };
        for &cap in caps {
            let mut act = act.clone();
            act.cap = cap;
            let mut succ: Option<String> = None;
            let mut ticks: u64 = 0;
            ctx.pilot_case(
                || format!("state {} action {}", key, act.enc()),
                |c| {
                    c.transitions = 1;
                    let mut t: TooDee<E> = materialize_spare(sc, sr, &labels, match cap {
                        's' => SPARE,
                        '1' => 1,
                        '2' => 2,
                        _ => 0,
                    });
                    let mut m = model_of(sc, sr, &labels);
                    ledger::arm(u64::MAX);
                    let panicked = apply(&mut t, &mut m, &act, c);
                    ticks = ledger::disarm();
                    let leaky = matches!(act.op.as_str(), "lr" | "lc" | "irl" | "icl");
                    c.outcome(if panicked { "rejected" } else if leaky { "leaked-or-lied" } else { "accepted" });
                    if !panicked {
                        c.nontrivial((key, &act.op, &act.a, act.cap));
                    }
                    let ok = check_state(&t, &m, c, &format!("after {}", act.enc()));
                    if ok {
                        ledger_clean::<E>(c, &format!("after {}", act.enc()), (m.cols * m.rows) as u64, !panicked && !leaky);
                        if m.cols * m.rows <= bounds.cells && m.cols <= bounds.dim && m.rows <= bounds.dim {
                            succ = Some(key_string(tag, m.cols, m.rows, &m.flat()));
                        }
                        drop(t);
                        ledger_clean::<E>(c, &format!("after {} and drop of the array", act.enc()), 0, !panicked && !leaky);
                    } else {
                        // the array is not trustworthy: do not run its destructor
                        std::mem::forget(t);
                    }
                },
            );
            if let Some(k) = succ {
                if k != key && emitted.insert(k.clone()) {
                    ctx.successor(k, format!("{}\t{}", key, act.enc()));
                }
            }
            // C05: the same transition with the k-th call into the element type's own code
            // (Clone, Drop, Ord::cmp) panicking, for every k: no double drop, no dead cell afterwards
            if with_terminals && E::TRACKED && !E::ZST && cap == 'x' {
                for k in 0..ticks {
                    ctx.case(
                        || format!("state {} action {} with call #{} into element code panicking", key, act.enc(), k),
                        |c| {
                            c.transitions = 1;
                            let mut t: TooDee<E> = materialize_spare(sc, sr, &labels, 0);
                            let mut m = model_of(sc, sr, &labels);
                            ledger::arm(k);
                            // the harness's own temporaries (source slices, held items) are dropped
                            // inside apply as well, so the whole call is guarded
                            let _ = guarded(|| apply(&mut t, &mut m, &act, c));
                            ledger::disarm();
                            // only the fault oracle applies to this run: discard model-based complaints
                            c.fails.clear();
                            c.outcome("faulted");
                            c.nontrivial((key, &act.op, &act.a, k));
                            let what = format!("after {} with a panic in {}", act.enc(), ledger::fault_kind());
                            if valid_array(&t, c, &what) {
                                drop(t);
                            } else {
                                std::mem::forget(t);
                            }
                            let (dd, gd, first) = ledger::problems();
                            if dd + gd > 0 {
                                c.fail("drop:double-after-panic", format!("{}: {} double / {} garbage drops: {}", what, dd, gd, first.unwrap_or_default()));
                            }
                        },
                    );
                }
            }
        }
    }
    if with_terminals {
        for act in terminals(sc, sr) {
            for cap in ['x', 's'] {
                let mut act = act.clone();
                act.cap = cap;
                let mut ticks: u64 = 0;
                ctx.pilot_case(
                    || format!("state {} terminal {}", key, act.enc()),
                    |c| {
                        c.transitions = 1;
                        let t: TooDee<E> = materialize(sc, sr, &labels, cap == 's');
                        let m = model_of(sc, sr, &labels);
                        c.nontrivial((key, act.enc()));
                        c.outcome("terminal");
                        ledger::arm(u64::MAX);
                        run_terminal(t, &m, &act, c);
                        ticks = ledger::disarm();
                        ledger_clean::<E>(c, &format!("after terminal {}", act.enc()), 0, true);
                    },
                );
                // the same terminal with each call into the element type's own code (Clone, Drop) panicking: whatever
                // is left is dropped by the unwinding; nothing may be dropped twice, no never-constructed value dropped
                if E::TRACKED && !E::ZST && cap == 'x' {
                    for k in 0..ticks {
                        ctx.case(
                            || format!("state {} terminal {} with call #{} into the element type panicking", key, act.enc(), k),
                            |c| {
                                c.transitions = 1;
                                let t: TooDee<E> = materialize(sc, sr, &labels, false);
                                let m = model_of(sc, sr, &labels);
                                ledger::arm(k);
                                let _ = guarded(|| run_terminal(t, &m, &act, c));
                                ledger::disarm();
                                c.fails.clear();
                                c.outcome("faulted-terminal");
                                c.nontrivial((key, act.enc(), k));
                                let (dd, gd, first) = ledger::problems();
                                if dd + gd > 0 {
                                    c.fail("drop:double-after-panic", format!("terminal {} with a panic in {}: {} double / {} garbage drops: {}", act.enc(), ledger::fault_kind(), dd, gd, first.unwrap_or_default()));
                                }
                            },
                        );
                    }
                }
            }
        }
    }
}

/// Constructor calls (initial states).
/// Histories of `depth` actions on ONE live object (no re-materialisation between the steps, so hidden state -
/// spare capacity, stale bits beyond the length, whatever an operation leaves behind - is carried over): from
/// the c x r array with distinct labels, the `from..to` slice of the alphabet as first action (exact and spare
/// capacity), then EVERY action of the alphabet of each state reached, with the C01 / C05 oracle after each step.
pub fn run_chains<E: Elem>(c: usize, r: usize, from: usize, to: usize, depth: usize, ctx: &mut Ctx) {
    let labels: Vec<u32> = (0..(c * r) as u32).collect();
    let copy = !E::TRACKED;
    let firsts = actions(c, r, copy, true);
    for a1 in firsts.iter().take(to).skip(from) {
        for cap in ['x', 's'] {
            let mut a1 = a1.clone();
            a1.cap = cap;
            let mut prefix = vec![a1];
            chain_rec::<E>(c, r, &labels, &mut prefix, depth, ctx);
        }
    }
}

fn chain_rec<E: Elem>(c: usize, r: usize, labels: &[u32], prefix: &mut Vec<Act>, depth: usize, ctx: &mut Ctx) {
    let copy = !E::TRACKED;
    let leaky = |a: &Act| matches!(a.op.as_str(), "lr" | "lc" | "irl" | "icl");
    let enc = |p: &[Act]| p.iter().map(|a| a.enc()).collect::<Vec<_>>().join(" then ");
    let leaf = prefix.len() == depth;
    let mut reached: Option<(usize, usize)> = None;
    let body = |cs: &mut Case| {
        cs.transitions = prefix.len() as u64;
        let mut t: TooDee<E> = materialize(c, r, labels, false);
        let mut m = model_of(c, r, labels);
        let mut any_panic = false;
        let mut last_panicked = false;
        for (k, a) in prefix.iter().enumerate() {
            last_panicked = apply(&mut t, &mut m, a, cs);
            any_panic |= last_panicked;
            if !check_state(&t, &m, cs, &format!("after {}", enc(&prefix[..=k]))) {
                std::mem::forget(t);
                return;
            }
        }
        cs.outcome(if last_panicked { "rejected" } else { "accepted" });
        if !last_panicked {
            cs.nontrivial((c, r, prefix.iter().map(|a| (a.op.clone(), a.a.clone(), a.cap)).collect::<Vec<_>>()));
        }
        ledger_clean::<E>(cs, &format!("after {}", enc(prefix)), (m.cols * m.rows) as u64, !any_panic && !prefix.iter().any(leaky));
        reached = Some((m.cols, m.rows));
    };
    let desc = || format!("{}x{} array, on one object: {}", c, r, enc(prefix));
    if leaf {
        ctx.case(desc, body);
        return;
    }
    ctx.pilot_case(desc, body);
    let Some((c2, r2)) = reached else { return };
    if c2 * r2 > 9 {
        return;
    }
    for a in actions(c2, r2, copy, true) {
        prefix.push(a);
        chain_rec::<E>(c, r, labels, prefix, depth, ctx);
        prefix.pop();
    }
}

/// Units for `run_chains`: "extra:chain:<tag>:CxR:from:to".
pub fn chain_units(tag: char, copy: bool, tier: Tier) -> Vec<String> {
    let mut v = Vec::new();
    // depth 2 from every shape up to 3x2 / 2x3; thorough: additionally depth 3 from the shapes up to 2x2
    let mut plans: Vec<(usize, usize, usize)> = [(0usize, 0usize), (1, 1), (2, 1), (1, 2), (2, 2), (3, 1), (1, 3), (3, 2), (2, 3)].iter().map(|&(c, r)| (c, r, 2)).collect();
    if tier == Tier::Thorough {
        plans.extend([(0usize, 0usize, 3usize), (1, 1, 3), (2, 1, 3), (1, 2, 3), (2, 2, 3)]);
    }
    for (c, r, depth) in plans {
        let n = actions(c, r, copy, true).len();
        let chunk = if depth == 2 { 8 } else { 1 };
        let mut i = 0;
        while i < n {
            v.push(format!("extra:chain:{}:{}x{}:{}:{}:{}", tag, c, r, i, (i + chunk).min(n), depth));
            i += chunk;
        }
    }
    v
}
pub fn run_chain_unit(unit: &str, ctx: &mut Ctx) {
    let p: Vec<&str> = unit.split(':').collect();
    let (c, r) = p[3].split_once('x').unwrap();
    let (c, r): (usize, usize) = (c.parse().unwrap(), r.parse().unwrap());
    let (from, to, depth): (usize, usize, usize) = (p[4].parse().unwrap(), p[5].parse().unwrap(), p[6].parse().unwrap());
    match p[2] {
        "U" => run_chains::<u32>(c, r, from, to, depth, ctx),
        "T" => run_chains::<Tracked>(c, r, from, to, depth, ctx),
        _ => run_chains::<TrackedZst>(c, r, from, to, depth, ctx),
    }
}

pub fn init_units(tag: char, b: &Bounds) -> Vec<String> {
    let mut v = Vec::new();
    let n = b.dim;
    v.push(format!("init:{}:default", tag));
    for k in [0, 1, 5] {
        v.push(format!("init:{}:with_capacity.{}", tag, k));
    }
    for c in 0..=n {
        for r in 0..=n {
            v.push(format!("init:{}:new.{}.{}", tag, c, r));
            v.push(format!("init:{}:init.{}.{}", tag, c, r));
            for len in 0..=(b.cells + 1) {
                // only lengths near the product or near zero are interesting, but all are cheap
                for spare in [0, 1] {
                    v.push(format!("init:{}:from_vec.{}.{}.{}.{}", tag, c, r, len, spare));
                }
                v.push(format!("init:{}:from_box.{}.{}.{}", tag, c, r, len));
            }
        }
    }
    v
}

pub fn run_init<E: Elem>(spec: &str, ctx: &mut Ctx, bounds: &Bounds) {
    let act = Act::parse(spec);
    let a = act.a.clone();
    let tag = tag_of::<E>();
    let mut succ: Option<String> = None;
    ctx.case(
        || format!("constructor {}", spec),
        |c| {
            c.transitions = 1;
            let mut m: Model<u32> = Model::empty();
            let zero_ok = |cc: usize, rr: usize| (cc == 0) == (rr == 0);
            let built: Result<TooDee<E>, String> = match act.op.as_str() {
                "default" => guarded(TooDee::<E>::default),
                "with_capacity" => guarded(|| TooDee::<E>::with_capacity(a[0])),
                "new" => {
                    if zero_ok(a[0], a[1]) {
                        m = Model::from_flat(a[0], a[1], &vec![0; a[0] * a[1]]);
                    }
                    guarded(|| TooDee::<E>::new(a[0], a[1]))
                }
                "init" => {
                    if zero_ok(a[0], a[1]) {
                        m = Model::from_flat(a[0], a[1], &vec![7; a[0] * a[1]]);
                    }
                    let v = E::make(7);
                    guarded(|| TooDee::<E>::init(a[0], a[1], v))
                }
                "from_vec" | "from_box" => {
                    let len = a[2];
                    let labels: Vec<u32> = (0..len as u32).collect();
                    if zero_ok(a[0], a[1]) && a[0] * a[1] == len {
                        m = Model::from_flat(a[0], a[1], &labels);
                    }
                    let mut v: Vec<E> = Vec::with_capacity(len + if act.op == "from_vec" && a[3] == 1 { SPARE } else { 0 });
                    for l in &labels {
                        v.push(E::make(*l));
                    }
                    if act.op == "from_vec" {
                        guarded(|| TooDee::from_vec(a[0], a[1], v))
                    } else {
                        guarded(|| TooDee::from_box(a[0], a[1], v.into_boxed_slice()))
                    }
                }
                other => panic!("unknown constructor {}", other),
            };
            match built {
                Err(_) => {
                    c.outcome("rejected");
                    ledger_clean::<E>(c, "after rejected constructor", 0, false);
                }
                Ok(t) => {
                    c.outcome("accepted");
                    c.nontrivial(spec);
                    if check_state(&t, &m, c, &format!("after {}", spec)) {
                        ledger_clean::<E>(c, "after constructor", (m.cols * m.rows) as u64, true);
                        if m.cols * m.rows <= bounds.cells && m.cols <= bounds.dim && m.rows <= bounds.dim {
                            succ = Some(key_string(tag, m.cols, m.rows, &m.flat()));
                        }
                        drop(t);
                        ledger_clean::<E>(c, "after constructor and drop", 0, true);
                    } else {
                        std::mem::forget(t);
                    }
                }
            }
        },
    );
    if let Some(k) = succ {
        ctx.successor(k, format!("\t{}", spec));
    }
}

/// Witness replay: the whole shortest history on ONE live object; the key reached must be the
/// key the search recorded.
pub fn run_replay<E: Elem>(hist: &str, expect_key: &str, ctx: &mut Ctx) {
    ctx.case(
        || format!("history {} must reach {}", hist, expect_key),
        |c| {
            let mut steps = hist.split(';');
            let first = steps.next().unwrap();
            let act = Act::parse(first);
            let a = &act.a;
            let (mut t, mut m): (TooDee<E>, Model<u32>) = match act.op.as_str() {
                "default" => (TooDee::default(), Model::empty()),
                "with_capacity" => (TooDee::with_capacity(a[0]), Model::empty()),
                "new" => (TooDee::new(a[0], a[1]), Model::from_flat(a[0], a[1], &vec![0; a[0] * a[1]])),
                "init" => (TooDee::init(a[0], a[1], E::make(7)), Model::from_flat(a[0], a[1], &vec![7; a[0] * a[1]])),
                "from_vec" | "from_box" => {
                    let labels: Vec<u32> = (0..a[2] as u32).collect();
                    let mut v: Vec<E> = Vec::with_capacity(a[2] + if act.op == "from_vec" && a[3] == 1 { SPARE } else { 0 });
                    for l in &labels {
                        v.push(E::make(*l));
                    }
                    let t = if act.op == "from_vec" { TooDee::from_vec(a[0], a[1], v) } else { TooDee::from_box(a[0], a[1], v.into_boxed_slice()) };
                    (t, Model::from_flat(a[0], a[1], &labels))
                }
                other => panic!("unknown constructor {}", other),
            };
            let mut n = 1u64;
            for s in steps {
                let act = Act::parse(s);
                apply(&mut t, &mut m, &act, c);
                n += 1;
                if !check_state(&t, &m, c, &format!("live object after step {} ({})", n, s)) {
                    std::mem::forget(t);
                    return;
                }
            }
            c.transitions = 0;
            let k = key_string(tag_of::<E>(), t.num_cols(), t.num_rows(), &t.data().iter().map(|e| e.label()).collect::<Vec<_>>());
            if k != expect_key {
                c.fail("replay:key-mismatch", format!("live object carried through {} steps is in state {} but the search recorded {}", n, k, expect_key));
            } else {
                c.traces = 1;
            }
            c.nontrivial(expect_key);
            drop(t);
            ledger_clean::<E>(c, "after live-object history and drop", 0, false);
        },
    );
}

pub fn bounds_for(tier: Tier, quick: (usize, usize), thorough: (usize, usize)) -> Bounds {
    let (cells, dim) = tier.pick(quick, thorough);
    Bounds { cells, dim }
}

/// Dispatch of a unit string for element type chosen by tag.
pub fn run_unit_generic(unit: &str, ctx: &mut Ctx, bounds: &Bounds, with_terminals: bool) {
    fn go<E: Elem>(unit: &str, ctx: &mut Ctx, bounds: &Bounds, with_terminals: bool) {
        if let Some(rest) = unit.strip_prefix("init:") {
            run_init::<E>(&rest[2..], ctx, bounds);
        } else if let Some(key) = unit.strip_prefix("state:") {
            expand::<E>(key, ctx, bounds, with_terminals);
        } else if let Some(rest) = unit.strip_prefix("replay:") {
            let (hist, key) = rest.split_once('|').unwrap();
            run_replay::<E>(hist, key, ctx);
        } else {
            panic!("bad unit {}", unit);
        }
    }
    let tag = if let Some(rest) = unit.strip_prefix("init:") {
        rest.chars().next().unwrap()
    } else if let Some(key) = unit.strip_prefix("state:") {
        key.chars().next().unwrap()
    } else if let Some(rest) = unit.strip_prefix("replay:") {
        rest.split_once('|').unwrap().1.chars().next().unwrap()
    } else {
        panic!("bad unit {}", unit)
    };
    match tag {
        'U' => go::<u32>(unit, ctx, bounds, with_terminals),
        'T' => go::<Tracked>(unit, ctx, bounds, with_terminals),
        'Z' => go::<TrackedZst>(unit, ctx, bounds, with_terminals),
        _ => panic!("bad tag in unit {}", unit),
    }
    let _ = shapes_cells;
}
