//! Address-level observation of anything that implements `TooDeeOps<u32>` (DESIGN.md 3.6).

use toodee::{Coordinate, TooDeeOps};

#[derive(Debug, PartialEq, Eq, Clone, Default)]
pub struct Obs {
    pub size: (usize, usize),
    /// address of every cell via Index<Coordinate>, row-major
    pub cells: Vec<usize>,
    /// (address, len) of every row via Index<usize>
    pub rows_idx: Vec<(usize, usize)>,
    /// rows().len() and the (address, len) of each row yielded by rows()
    pub rows_len: usize,
    pub rows_it: Vec<(usize, usize)>,
    /// per column: col(c).len() and addresses yielded by col(c)
    pub col_lens: Vec<usize>,
    pub cols_it: Vec<Vec<usize>>,
    /// cells().len() and addresses yielded by cells()
    pub cells_len: usize,
    pub cells_it: Vec<usize>,
    /// get_unchecked / get_unchecked_row addresses
    pub unchecked: Vec<usize>,
    pub unchecked_rows: Vec<(usize, usize)>,
    pub is_empty: bool,
}

pub fn observe<V: TooDeeOps<u32>>(v: &V) -> Obs {
    let (c, r) = (v.num_cols(), v.num_rows());
    let mut o = Obs { size: v.size(), is_empty: v.is_empty(), ..Default::default() };
    for y in 0..r {
        let row = &v[y];
        o.rows_idx.push((row.as_ptr() as usize, row.len()));
        let ur = unsafe { v.get_unchecked_row(y) };
        o.unchecked_rows.push((ur.as_ptr() as usize, ur.len()));
        for x in 0..c {
            o.cells.push(&v[(x, y)] as *const u32 as usize);
            o.unchecked.push(unsafe { v.get_unchecked((x, y)) } as *const u32 as usize);
        }
    }
    o.rows_len = v.rows().len();
    o.rows_it = v.rows().map(|s| (s.as_ptr() as usize, s.len())).collect();
    for x in 0..c {
        o.col_lens.push(v.col(x).len());
        o.cols_it.push(v.col(x).map(|e| e as *const u32 as usize).collect());
    }
    o.cells_len = v.cells().len();
    o.cells_it = v.cells().map(|e| e as *const u32 as usize).collect();
    o
}

/// What `observe` must return for a window whose cell (0,0) is the root's cell `abs` and whose
/// size is `size`, the root's cell (0,0) being at `base` with row stride `stride` (in elements).
pub fn expected(base: usize, stride: usize, abs: Coordinate, size: (usize, usize)) -> Obs {
    let (c, r) = size;
    let addr = |x: usize, y: usize| base + ((abs.1 + y) * stride + abs.0 + x) * 4;
    let mut o = Obs { size, is_empty: c == 0 || r == 0, ..Default::default() };
    for y in 0..r {
        o.rows_idx.push((addr(0, y), c));
        o.unchecked_rows.push((addr(0, y), c));
        for x in 0..c {
            o.cells.push(addr(x, y));
            o.unchecked.push(addr(x, y));
        }
    }
    o.rows_len = r;
    o.rows_it = o.rows_idx.clone();
    for x in 0..c {
        o.col_lens.push(r);
        o.cols_it.push((0..r).map(|y| addr(x, y)).collect());
    }
    o.cells_len = c * r;
    o.cells_it = o.cells.clone();
    o
}

/// First differing field, for messages.
pub fn diff(got: &Obs, exp: &Obs) -> Option<String> {
    macro_rules! f {
        ($name:ident) => {
            if got.$name != exp.$name {
                return Some(format!("{}: got {:x?}, expected {:x?}", stringify!($name), got.$name, exp.$name));
            }
        };
    }
    f!(size);
    f!(is_empty);
    f!(cells);
    f!(rows_idx);
    f!(rows_len);
    f!(rows_it);
    f!(col_lens);
    f!(cols_it);
    f!(cells_len);
    f!(cells_it);
    f!(unchecked);
    f!(unchecked_rows);
    None
}

/// Only what "a window whose cell (c,r) is the parent's cell" says: size and the cells reached through
/// the two Index forms (the iterators and unchecked getters are other properties' subjects).
pub fn diff_cells(got: &Obs, exp: &Obs) -> Option<String> {
    macro_rules! f {
        ($name:ident) => {
            if got.$name != exp.$name {
                return Some(format!("{}: got {:x?}, expected {:x?}", stringify!($name), got.$name, exp.$name));
            }
        };
    }
    f!(size);
    f!(cells);
    f!(rows_idx);
    None
}

/// Observation restricted to size and the Index forms.
pub fn observe_cells<V: TooDeeOps<u32>>(v: &V) -> Obs {
    let (c, r) = (v.num_cols(), v.num_rows());
    let mut o = Obs { size: v.size(), ..Default::default() };
    for y in 0..r {
        let row = &v[y];
        o.rows_idx.push((row.as_ptr() as usize, row.len()));
        for x in 0..c {
            o.cells.push(&v[(x, y)] as *const u32 as usize);
        }
    }
    o
}

/// Size of the window (start, end) per the property: end-start, or (0,0) if either extent is zero.
pub fn win_size(s: Coordinate, e: Coordinate) -> (usize, usize) {
    let (c, r) = (e.0 - s.0, e.1 - s.1);
    if c == 0 || r == 0 {
        (0, 0)
    } else {
        (c, r)
    }
}
pub fn win_valid(s: Coordinate, e: Coordinate, size: (usize, usize)) -> bool {
    s.0 <= e.0 && s.1 <= e.1 && e.0 <= size.0 && e.1 <= size.1
}
