//! C09 - column iterators behave as the ideal double-ended, exact-size, indexable sequence.

use toodee::{TooDeeOps, TooDeeOpsMut};

use super::c08::{has_mut, layout, new_root, verify_writes, KINDS, MARK};
use super::seqx::{alphabet, enc_seq, guarded_run, ideal_step, run_sequence, sequences, Call, Term, Tok, TERMS};
use crate::engine::util::{huge_for_mul, shapes};
use crate::engine::{guarded, Case, Ctx, Profile, Prop, Tier};
use crate::with_subject;

pub struct C09P;
pub static C09: C09P = C09P;

fn nth_values(rows: usize, stride: usize, slice_len: usize, tier: Tier) -> Vec<usize> {
    let mut ns: Vec<usize> = (0..=rows + 1).collect();
    let hs = huge_for_mul(&[stride.max(1)], slice_len, rows + 2);
    ns.extend(hs.iter().copied().filter(|h| *h < usize::MAX - 3).take(tier.pick(2, 6)));
    ns.push(usize::MAX / stride.max(1));
    ns.push(usize::MAX);
    ns.sort_unstable();
    ns.dedup();
    ns
}

impl Prop for C09P {
    fn id(&self) -> &'static str {
        "C09"
    }
    fn level(&self) -> &'static str {
        "model_checking"
    }
    fn profiles(&self, _tier: Tier) -> Vec<Profile> {
        vec![Profile::Chk, Profile::Wrap]
    }
    fn units(&self, tier: Tier) -> Vec<String> {
        let n = tier.pick(3, 4);
        let mut v = Vec::new();
        let mut subjects: Vec<(usize, usize)> = shapes(n);
        subjects.push((1, n + 2));
        subjects.push((2, n + 1));
        for (c, r) in subjects {
            for k in KINDS {
                if (c, r) == (0, 0) {
                    v.push(format!("{} 0x0 0 col", k));
                    continue;
                }
                for col in 0..c {
                    // first, last and (if any) one interior column are distinct code paths; all are cheap
                    v.push(format!("{} {}x{} {} col", k, c, r, col));
                    if has_mut(k) {
                        v.push(format!("{} {}x{} {} col_mut", k, c, r, col));
                    }
                }
            }
        }
        for (c, r) in super::hugezst::shapes() {
            v.push(format!("hugezst {}x{}", c, r));
        }
        for (c, r) in super::hugezst::mid_shapes(tier) {
            v.push(format!("midsize {}x{}", c, r));
        }
        v
    }
    fn run_unit(&self, unit: &str, ctx: &mut Ctx) {
        let p: Vec<&str> = unit.split(' ').collect();
        if p[0] == "midsize" {
            let (c, r) = super::hugezst::parse_shape(p[1]);
            run_mid(c, r, ctx);
            return;
        }
        if p[0] == "hugezst" {
            let (c, r) = super::hugezst::parse_shape(p[1]);
            run_huge_zst(c, r, ctx);
            return;
        }
        let kind = p[0];
        let (c, r) = p[1].split_once('x').unwrap();
        let (c, r): (usize, usize) = (c.parse().unwrap(), r.parse().unwrap());
        let col: usize = p[2].parse().unwrap();
        let mutable = p[3] == "col_mut";
        if c == 0 {
            run_out_of_range(kind, c, r, ctx);
        } else {
            if col == 0 {
                run_out_of_range(kind, c, r, ctx);
            }
            run_subject(kind, c, r, col, mutable, ctx);
        }
    }
    fn rule(&self) -> String {
        "subjects: col(c) and col_mut(c) for EVERY column of owned arrays, TooDeeView / TooDeeViewMut windows (stride > width), nested windows and directly constructed views, every shape in the bound incl. single-column arrays (stride 1). \
         Every call sequence up to the depth bound over {next, next_back, nth(n), nth_back(n)} (n in 0..=rows+1 plus overflow-provoking values) cut two calls after exhaustion, on a fresh real iterator; len()/size_hint() after every call; \
         every proper prefix is additionally (i) closed with count, last, fold, rfold, for_each, rev-then-forward and (ii) followed by indexing [i] of the REMAINING sequence for every i in 0..=remaining+1 plus wrap-provoking huge i (in range => address of the i-th remaining cell, out of range => panic; IndexMut writes through for col_mut). \
         Results compared by ADDRESS with the ideal VecDeque; col_mut items are written through and the array must show exactly those writes; col(c)/col_mut(c) with c >= num_cols must panic. \
         Arrays of () with close to usize::MAX cells and their windows: col(x) / col_mut(x) for the first, middle and last column must report exact len()/size_hint() and follow the ideal sequence by count for every sequence of up to three calls of next / next_back / nth(0..=2) / nth_back(0..=2), and - when at most four cells are left - jumps by huge n (including n below the slice length whose product with the stride overflows), count and last. \
         Arrays of ordinary cells whose dimensions cross 256 (thorough: 65536) and strided windows of them: first and last column, the same short sequences with jumps around those sizes, every yielded cell compared by ADDRESS. \
         states = distinct (subject, column, front, back) cursor positions; transitions = iterator calls; traces_validated_against_impl = sequences executed."
            .into()
    }
    fn bound(&self, tier: Tier) -> String {
        format!("shapes up to {0}x{0} plus 1x{1}, 2x{2}; depth {3}", tier.pick(3, 4), tier.pick(3, 4) + 2, tier.pick(3, 4) + 1, tier.pick("4 (3 on the secondary receiver kinds with 3 or more rows)", "5 (4 on the tallest shapes)"))
    }
}

fn run_out_of_range(kind: &str, c: usize, r: usize, ctx: &mut Ctx) {
    let (pc, pr, _) = layout(kind, c, r);
    let mut cols = vec![c, c + 1, usize::MAX, usize::MAX / 2 + 1, 1 << 32];
    cols.extend(huge_for_mul(&[pc.max(1)], 1, c + 1).into_iter().take(3));
    for col in cols {
        for mutable in [false, true] {
            if mutable && !has_mut(kind) {
                continue;
            }
            ctx.case(
                || format!("{} {}x{} {}({}) must panic", kind, c, r, if mutable { "col_mut" } else { "col" }, col),
                |cs| {
                    let mut root = new_root(pc, pr);
                    let res = guarded(|| {
                        with_subject!(
                            kind,
                            c,
                            r,
                            root,
                            |x| {
                                x.col(col).len()
                            },
                            |x| {
                                x.col_mut(col).len()
                            },
                            mutable
                        )
                    });
                    if let Ok(l) = res {
                        cs.fail("col:accepts-out-of-range", format!("column {} of a {}-column receiver did not panic (iterator of length {})", col, c, l));
                    }
                },
            );
        }
    }
}

/// col(x) / col_mut(x) of huge arrays of () and of their windows (see props/hugezst.rs).
fn run_huge_zst(c: usize, r: usize, ctx: &mut Ctx) {
    use super::hugezst::{array, enc, run, sequences, windows};
    for (s, e) in windows(c, r) {
        let (wc, wr) = (e.0 - s.0, e.1 - s.1);
        let mut cols = vec![0, wc - 1, wc / 2];
        cols.sort_unstable();
        cols.dedup();
        for &x in &cols {
            // [i] on the fresh column iterator: every i < len must be accepted (also beyond isize::MAX), i >= len rejected
            let mut is: Vec<usize> = vec![0, 1, wr / 2, wr - 1, wr, wr.wrapping_add(1), usize::MAX, usize::MAX / 2, usize::MAX / 2 + 1, (usize::MAX / 2) / c.max(1), ((usize::MAX / 2) / c.max(1)).wrapping_add(1), usize::MAX / c.max(1), (usize::MAX / c.max(1)).wrapping_add(1)];
            is.sort_unstable();
            is.dedup();
            for i in is {
                for kind in 0..4u8 {
                    if kind < 2 && (s, e) != ((0, 0), (c, r)) {
                        continue;
                    }
                    let name = ["TooDee::col", "TooDee::col_mut", "view(..).col", "view_mut(..).col_mut"][kind as usize];
                    ctx.case(
                        || format!("TooDee<()> {}x{} window {:?}-{:?} {}({})[{}]", c, r, s, e, name, x, i),
                        |cs| {
                            let valid = i < wr;
                            if valid {
                                cs.nontrivial((c, r, s, e, x, kind, i));
                            }
                            cs.outcome(if valid { "huge-zst-index" } else { "huge-zst-index-rejected" });
                            let mut t = array(c, r);
                            let res = match kind {
                                0 => crate::engine::guarded(|| {
                                    let _ = &t.col(x)[i];
                                }),
                                1 => crate::engine::guarded(|| {
                                    let mut cm = t.col_mut(x);
                                    let _ = &cm[i];
                                    cm[i] = ();
                                }),
                                2 => crate::engine::guarded(|| {
                                    let _ = &t.view(s, e).col(x)[i];
                                }),
                                _ => crate::engine::guarded(|| {
                                    let mut v = t.view_mut(s, e);
                                    let mut cm = v.col_mut(x);
                                    let _ = &cm[i];
                                    cm[i] = ();
                                }),
                            };
                            match (valid, res) {
                                (true, Err(m)) => cs.fail("col-index:panics-in-range", format!("{}({})[{}] with {} cells panicked: {}", name, x, i, wr, m)),
                                (false, Ok(())) => cs.fail("col-index:no-panic-out-of-range", format!("{}({})[{}] with {} cells returned", name, x, i, wr)),
                                _ => {}
                            }
                        },
                    );
                }
            }
        }
        for x in cols {
            for seq in sequences(wr, &[c, wc]) {
                for kind in 0..4u8 {
                    if kind < 2 && (s, e) != ((0, 0), (c, r)) {
                        continue;
                    }
                    let name = ["TooDee::col", "TooDee::col_mut", "view(..).col", "view_mut(..).col_mut"][kind as usize];
                    ctx.case(
                        || format!("TooDee<()> {}x{} window {:?}-{:?} {}({}): {}", c, r, s, e, name, x, enc(&seq)),
                        |cs| {
                            cs.nontrivial((c, r, s, e, x, kind, &seq));
                            cs.outcome("huge-zst");
                            cs.transitions = seq.len() as u64;
                            cs.traces = 1;
                            let mut t = array(c, r);
                            let what = format!("{}({}) of the {}x{} window", name, x, wc, wr);
                            let built = match kind {
                                0 => crate::engine::guarded(|| run(t.col(x), wr, &seq, |_| None, &what, cs)),
                                1 => crate::engine::guarded(|| run(t.col_mut(x), wr, &seq, |_| None, &what, cs)),
                                2 => crate::engine::guarded(|| {
                                    let v = t.view(s, e);
                                    run(v.col(x), wr, &seq, |_| None, &what, cs)
                                }),
                                _ => crate::engine::guarded(|| {
                                    let mut v = t.view_mut(s, e);
                                    run(v.col_mut(x), wr, &seq, |_| None, &what, cs)
                                }),
                            };
                            if let Err(m) = built {
                                cs.fail("hugezst:panic", format!("building {} panicked: {}", what, m));
                            }
                        },
                    );
                }
            }
        }
    }
}

fn run_subject(kind: &str, c: usize, r: usize, col: usize, mutable: bool, ctx: &mut Ctx) {
    let (pc, pr, abs) = layout(kind, c, r);
    let stride = pc;
    let slice_len = if r == 0 { 0 } else { (r - 1) * stride + 1 };
    // quick: depth 4 on owned arrays and interior windows, depth 3 on the other receiver kinds
    let depth = match ctx.tier {
        Tier::Quick => if kind == "O" || kind == "M2" || r <= 2 { 4 } else { 3 },
        Tier::Thorough => if r > 4 { 4 } else { 5 },
    };
    let ns = nth_values(r, stride, slice_len, ctx.tier);
    let alpha = alphabet(&ns);
    let (maxi, inner) = sequences(&alpha, r, depth, 2);
    // (sequence, terminal, index-probe after the last call)
    let mut jobs: Vec<(Vec<Call>, Term, bool)> = maxi.into_iter().map(|s| (s, Term::None, false)).collect();
    for s in inner {
        for t in TERMS {
            jobs.push((s.clone(), t, false));
        }
        jobs.push((s.clone(), Term::None, true));
    }
    for (seq, term, probe) in jobs {
        ctx.case(
            || format!("{} {}x{} {}({}): {}{}", kind, c, r, if mutable { "col_mut" } else { "col" }, col, enc_seq(&seq, term), if probe { "then [i] for every i" } else { "" }),
            |cs| {
                let mut root = new_root(pc, pr);
                let base = root.data().as_ptr() as usize;
                let ideal: Vec<Tok> = (0..r).map(|y| (base + ((abs.1 + y) * pc + abs.0 + col) * 4, 1)).collect();
                cs.traces = 1;
                cs.outcome(if probe { "index-probe" } else if term == Term::None { "calls-only" } else { "closed-by-terminal" });
                cs.nontrivial((kind, c, r, col, mutable, &seq, term, probe));
                {
                    let mut d: std::collections::VecDeque<Tok> = ideal.iter().copied().collect();
                    for call in &seq {
                        ideal_step(&mut d, *call);
                    }
                    let front = d.front().map(|t| t.0 - base).unwrap_or(usize::MAX);
                    cs.state((kind, c, r, col, mutable, d.len(), front));
                }
                let last_step = seq.len();
                let mut yielded: Vec<Tok> = Vec::new();
                let mut index_writes: Vec<Tok> = Vec::new();
                guarded_run(cs, |cs| {
                    with_subject!(
                        kind,
                        c,
                        r,
                        root,
                        |x| {
                            yielded = run_sequence(
                                x.col(col),
                                &seq,
                                term,
                                &ideal,
                                |e: &u32| (e as *const u32 as usize, 1),
                                |it, rest, step, cs: &mut Case| {
                                    if probe && step == last_step {
                                        let mut idx: Vec<usize> = (0..=rest.len() + 1).collect();
                                        idx.extend(huge_for_mul(&[stride.max(1)], slice_len + stride, rest.len()));
                                        for i in idx {
                                            let got = guarded(|| &it[i] as *const u32 as usize);
                                            judge_index(cs, "col[i]", i, got, rest);
                                        }
                                    }
                                },
                                cs,
                            );
                        },
                        |x| {
                            let mut k = 0u32;
                            yielded = run_sequence(
                                x.col_mut(col),
                                &seq,
                                term,
                                &ideal,
                                |e: &mut u32| {
                                    *e = MARK + k * 100;
                                    k += 1;
                                    (e as *const u32 as usize, 1)
                                },
                                |it, rest, step, cs: &mut Case| {
                                    if probe && step == last_step {
                                        let mut idx: Vec<usize> = (0..=rest.len() + 1).collect();
                                        idx.extend(huge_for_mul(&[stride.max(1)], slice_len + stride, rest.len()));
                                        for i in idx {
                                            let got = guarded(|| &it[i] as *const u32 as usize);
                                            judge_index(cs, "col_mut[i]", i, got, rest);
                                            let got = guarded(|| {
                                                let e = &mut it[i];
                                                *e = MARK + 50_000 + i as u32 * 100;
                                                e as *const u32 as usize
                                            });
                                            if let Ok(a) = got {
                                                index_writes.push((a, i));
                                            }
                                            judge_index(cs, "col_mut[i] (mut)", i, got, rest);
                                        }
                                    }
                                },
                                cs,
                            );
                        },
                        mutable
                    )
                });
                if cs.failed() {
                    return;
                }
                if mutable {
                    if index_writes.is_empty() {
                        verify_writes(&root, base, &yielded, cs);
                    } else {
                        // yielded items were marked first, then the remaining cells through IndexMut
                        let mut expect: Vec<u32> = (0..root.data().len() as u32).collect();
                        for (k, (a, _)) in yielded.iter().enumerate() {
                            expect[(a - base) / 4] = MARK + (k as u32) * 100;
                        }
                        for (a, i) in &index_writes {
                            expect[(a - base) / 4] = MARK + 50_000 + *i as u32 * 100;
                        }
                        if root.data() != &expect[..] {
                            cs.fail("iter:write-through", format!("after IndexMut writes the array is {:?}, expected {:?}", root.data(), expect));
                        }
                    }
                } else if root.data().iter().enumerate().any(|(i, v)| *v != i as u32) {
                    cs.fail("iter:modified", "a shared-reference iterator modified the array".into());
                }
            },
        );
    }
}

fn judge_index(cs: &mut Case, what: &str, i: usize, got: Result<usize, String>, rest: &std::collections::VecDeque<Tok>) {
    match (rest.get(i), got) {
        (Some(t), Ok(a)) => {
            if a != t.0 {
                cs.fail("col-index:wrong-cell", format!("{} with i = {} reached {:#x}, expected the {}-th remaining cell at {:#x}", what, i, a, i, t.0));
            }
        }
        (Some(_), Err(m)) => cs.fail("col-index:panics-in-range", format!("{} with i = {} (remaining {}) panicked: {}", what, i, rest.len(), m)),
        (None, Ok(a)) => cs.fail("col-index:no-panic-out-of-range", format!("{} with i = {} but only {} cells remain: returned address {:#x} instead of panicking", what, i, rest.len(), a)),
        (None, Err(_)) => {}
    }
}

/// col(x) / col_mut(x) of arrays whose dimensions cross 256 / 65536 and of strided windows of them.
fn run_mid(c: usize, r: usize, ctx: &mut Ctx) {
    use super::hugezst::{enc, mid_sequences, run_indexed};
    let mut wins: Vec<((usize, usize), (usize, usize))> = vec![((0, 0), (c, r))];
    if c > 2 {
        wins.push(((1, 0), (c - 1, r)));
    }
    if r > 2 {
        wins.push(((0, 1), (c, r - 1)));
    }
    for (s, e) in wins {
        let (wc, wr) = (e.0 - s.0, e.1 - s.1);
        let mut cols = vec![0, wc - 1];
        cols.dedup();
        for x in cols {
            for seq in mid_sequences(wr, &[c, wc]) {
                for kind in 0..4u8 {
                    if kind < 2 && (s, e) != ((0, 0), (c, r)) {
                        continue;
                    }
                    let name = ["TooDee::col", "TooDee::col_mut", "view(..).col", "view_mut(..).col_mut"][kind as usize];
                    ctx.case(
                        || format!("TooDee<u32> {}x{} window {:?}-{:?} {}({}): {}", c, r, s, e, name, x, enc(&seq)),
                        |cs| {
                            cs.nontrivial((c, r, s, e, x, kind, &seq));
                            cs.outcome("mid-size");
                            cs.transitions = seq.len() as u64;
                            cs.traces = 1;
                            let mut t = new_root(c, r);
                            let base = t.data().as_ptr() as usize;
                            let what = format!("{}({}) of the {}x{} window", name, x, wc, wr);
                            let ok = |addr: usize, idx: usize| {
                                let exp = base + ((s.1 + idx) * c + s.0 + x) * 4;
                                if addr == exp {
                                    None
                                } else {
                                    Some(format!("cell #{} of the column expected at {:#x}, got {:#x}", idx, exp, addr))
                                }
                            };
                            match kind {
                                0 => run_indexed(t.col(x), wr, &seq, |e, i| ok(*e as *const u32 as usize, i), true, &what, cs),
                                1 => run_indexed(t.col_mut(x), wr, &seq, |e, i| ok(&**e as *const u32 as usize, i), true, &what, cs),
                                2 => {
                                    let v = t.view(s, e);
                                    run_indexed(v.col(x), wr, &seq, |e, i| ok(*e as *const u32 as usize, i), true, &what, cs)
                                }
                                _ => {
                                    let mut v = t.view_mut(s, e);
                                    run_indexed(v.col_mut(x), wr, &seq, |e, i| ok(&**e as *const u32 as usize, i), true, &what, cs)
                                }
                            }
                        },
                    );
                }
            }
        }
    }
}
