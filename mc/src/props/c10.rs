//! C10 - cell iterators visit every cell once in row-major order (call-sequence exploration).

use toodee::{TooDeeIterator, TooDeeOps, TooDeeOpsMut};

use super::c08::{has_mut, layout, new_root, verify_writes, KINDS, MARK};
use super::seqx::{alphabet, enc_seq, guarded_run, ideal_step, run_sequence, sequences, Call, Term, Tok, TERMS};
use crate::engine::util::{huge_for_mul, shapes};
use crate::engine::{Case, Ctx, Profile, Prop, Tier};
use crate::with_subject;

pub struct C10P;
pub static C10: C10P = C10P;

fn nth_values(c: usize, r: usize, stride: usize, tier: Tier) -> Vec<usize> {
    let n = c * r;
    let mut ns: Vec<usize> = (0..=n + 1).collect();
    if c > 0 {
        for k in 0..=r + 1 {
            ns.push(k * c);
            ns.push(k * c + 1);
            ns.push((k * c).saturating_sub(1));
        }
    }
    // values whose row count (n / c) provokes the row iterator's stride multiplication
    let slice_len = if r == 0 { 0 } else { (r - 1) * stride + c };
    let hs = huge_for_mul(&[stride.max(1)], slice_len, r + 2);
    for h in hs.iter().copied().filter(|h| *h < usize::MAX / c.max(1) - 3).take(tier.pick(1, 4)) {
        ns.push(h.saturating_mul(c.max(1)));
        ns.push(h.saturating_mul(c.max(1)) + c.saturating_sub(1));
    }
    ns.push(usize::MAX - 1);
    ns.push(usize::MAX);
    ns.sort_unstable();
    ns.dedup();
    ns
}

const MODES: [&str; 4] = ["cells", "cells_mut", "into_iter_ref", "into_iter_mut"];

impl Prop for C10P {
    fn id(&self) -> &'static str {
        "C10"
    }
    fn level(&self) -> &'static str {
        "model_checking"
    }
    fn profiles(&self, _tier: Tier) -> Vec<Profile> {
        vec![Profile::Chk, Profile::Wrap]
    }
    fn units(&self, tier: Tier) -> Vec<String> {
        let n = tier.pick(3, 4);
        let mut v = Vec::new();
        for (c, r) in shapes(n) {
            for k in KINDS {
                for m in MODES {
                    let needs_mut = m == "cells_mut" || m == "into_iter_mut";
                    if needs_mut && !has_mut(k) {
                        continue;
                    }
                    v.push(format!("{} {}x{} {}", k, c, r, m));
                }
            }
        }
        for (c, r) in super::hugezst::shapes() {
            v.push(format!("hugezst {}x{}", c, r));
        }
        for (c, r) in super::hugezst::mid_shapes(tier) {
            v.push(format!("midsize {}x{}", c, r));
        }
        v
    }
    fn run_unit(&self, unit: &str, ctx: &mut Ctx) {
        let p: Vec<&str> = unit.split(' ').collect();
        if p[0] == "midsize" {
            let (c, r) = super::hugezst::parse_shape(p[1]);
            run_mid(c, r, ctx);
            return;
        }
        if p[0] == "hugezst" {
            let (c, r) = super::hugezst::parse_shape(p[1]);
            run_huge_zst(c, r, ctx);
            return;
        }
        let kind = p[0];
        let (c, r) = p[1].split_once('x').unwrap();
        let (c, r): (usize, usize) = (c.parse().unwrap(), r.parse().unwrap());
        run_subject(kind, c, r, p[2], ctx);
    }
    fn rule(&self) -> String {
        "subjects: cells(), cells_mut() and the IntoIterator forms on &TooDee, &mut TooDee, &TooDeeView, &TooDeeViewMut, &mut TooDeeViewMut, for owned arrays, strided windows, nested windows and direct views of every shape in the bound. \
         Every call sequence up to the depth bound over {next, next_back, nth(n), nth_back(n)} with n in 0..=cells+1, every k*cols and k*cols+-1 (within-row, row-crossing, exact-row-multiple, beyond-end) and huge values (usize::MAX, products that wrap the row stride), cut two calls after exhaustion, on a fresh real iterator; len()/size_hint()/num_cols() after every call; \
         every proper prefix closed with count, last, fold, rfold, for_each, rev-then-forward. Since every (front row, row iterator, back row) emptiness combination is reachable in two calls, depth 3 applies every letter in each. \
         Results compared by ADDRESS with the ideal row-major VecDeque; cells_mut items are written through and the array must show exactly those writes (each cell exactly once). \
         Arrays of () with close to usize::MAX cells and their windows: cells() / cells_mut() / (&array).into_iter() must report exact len()/size_hint() and follow the ideal sequence by count for every sequence of up to three calls of next / next_back / nth(0..=2) / nth_back(0..=2), and - when at most four cells are left - jumps by huge n, count and last. \
         Arrays of ordinary cells whose dimensions cross 256 (thorough: 65536) and strided windows of them: the same short sequences with jumps around those sizes, every yielded cell compared by ADDRESS. \
         states = distinct (subject, front, back) cursor positions; transitions = iterator calls; traces_validated_against_impl = sequences executed."
            .into()
    }
    fn bound(&self, tier: Tier) -> String {
        tier.pick("shapes up to 3x3, depth 3", "shapes up to 3x3 at depth 4, 4-wide/4-tall shapes at depth 3").into()
    }
}

/// cells() / cells_mut() / into_iter() of huge arrays of () and of their windows (see props/hugezst.rs).
fn run_huge_zst(c: usize, r: usize, ctx: &mut Ctx) {
    use super::hugezst::{array, enc, run, sequences, windows};
    for (s, e) in windows(c, r) {
        let (wc, wr) = (e.0 - s.0, e.1 - s.1);
        let len = wc.checked_mul(wr).expect("window cell count fits");
        for seq in sequences(len, &[c, wc]) {
            for kind in 0..5u8 {
                if kind < 3 && (s, e) != ((0, 0), (c, r)) {
                    continue;
                }
                let name = ["TooDee::cells()", "TooDee::cells_mut()", "(&TooDee).into_iter()", "view(..).cells()", "view_mut(..).cells_mut()"][kind as usize];
                ctx.case(
                    || format!("TooDee<()> {}x{} window {:?}-{:?} {}: {}", c, r, s, e, name, enc(&seq)),
                    |cs| {
                        cs.nontrivial((c, r, s, e, kind, &seq));
                        cs.outcome("huge-zst");
                        cs.transitions = seq.len() as u64;
                        cs.traces = 1;
                        let mut t = array(c, r);
                        let what = format!("{} of the {}x{} window", name, wc, wr);
                        let built = match kind {
                            0 => crate::engine::guarded(|| run(t.cells(), len, &seq, |_| None, &what, cs)),
                            1 => crate::engine::guarded(|| run(t.cells_mut(), len, &seq, |_| None, &what, cs)),
                            2 => crate::engine::guarded(|| run((&t).into_iter(), len, &seq, |_| None, &what, cs)),
                            3 => crate::engine::guarded(|| {
                                let v = t.view(s, e);
                                run(v.cells(), len, &seq, |_| None, &what, cs)
                            }),
                            _ => crate::engine::guarded(|| {
                                let mut v = t.view_mut(s, e);
                                run(v.cells_mut(), len, &seq, |_| None, &what, cs)
                            }),
                        };
                        if let Err(m) = built {
                            cs.fail("hugezst:panic", format!("building {} panicked: {}", what, m));
                        }
                    },
                );
            }
        }
    }
}

fn run_subject(kind: &str, c: usize, r: usize, mode: &str, ctx: &mut Ctx) {
    let (pc, pr, abs) = layout(kind, c, r);
    let stride = pc;
    let depth = match ctx.tier {
        Tier::Quick => 3,
        Tier::Thorough => {
            if c <= 3 && r <= 3 {
                4
            } else {
                3
            }
        }
    };
    let ns = nth_values(c, r, stride, ctx.tier);
    let alpha = alphabet(&ns);
    let (maxi, inner) = sequences(&alpha, c * r, depth, 2);
    let mut jobs: Vec<(Vec<Call>, Term)> = maxi.into_iter().map(|s| (s, Term::None)).collect();
    for s in inner {
        for t in TERMS {
            jobs.push((s.clone(), t));
        }
    }
    let mutable = mode == "cells_mut" || mode == "into_iter_mut";
    let via_into = mode.starts_with("into_iter");
    for (seq, term) in jobs {
        ctx.case(
            || format!("{} {}x{} {}: {}", kind, c, r, mode, enc_seq(&seq, term)),
            |cs| {
                let mut root = new_root(pc, pr);
                let base = root.data().as_ptr() as usize;
                let mut ideal: Vec<Tok> = Vec::with_capacity(c * r);
                for y in 0..r {
                    for x in 0..c {
                        ideal.push((base + ((abs.1 + y) * pc + abs.0 + x) * 4, 1));
                    }
                }
                cs.traces = 1;
                cs.outcome(if term == Term::None { "calls-only" } else { "closed-by-terminal" });
                if c > 0 {
                    cs.nontrivial((kind, c, r, mode, &seq, term));
                }
                {
                    let mut d: std::collections::VecDeque<Tok> = ideal.iter().copied().collect();
                    for call in &seq {
                        ideal_step(&mut d, *call);
                    }
                    let front = d.front().map(|t| t.0 - base).unwrap_or(usize::MAX);
                    cs.state((kind, c, r, mode, d.len(), front));
                }
                let mut yielded: Vec<Tok> = Vec::new();
                guarded_run(cs, |cs| {
                    with_subject!(
                        kind,
                        c,
                        r,
                        root,
                        |x| {
                            let it = if via_into { x.into_iter() } else { x.cells() };
                            yielded = run_sequence(
                                it,
                                &seq,
                                term,
                                &ideal,
                                |e: &u32| (e as *const u32 as usize, 1),
                                |it, _, _, cs: &mut Case| {
                                    if it.num_cols() != c {
                                        cs.fail("iter:num_cols", format!("num_cols() = {} but the receiver has {} columns", it.num_cols(), c));
                                    }
                                },
                                cs,
                            );
                        },
                        |x| {
                            let mut k = 0u32;
                            let it = if via_into { x.into_iter() } else { x.cells_mut() };
                            yielded = run_sequence(
                                it,
                                &seq,
                                term,
                                &ideal,
                                |e: &mut u32| {
                                    *e = MARK + k * 100;
                                    k += 1;
                                    (e as *const u32 as usize, 1)
                                },
                                |it, _, _, cs: &mut Case| {
                                    if it.num_cols() != c {
                                        cs.fail("iter:num_cols", format!("num_cols() = {} but the receiver has {} columns", it.num_cols(), c));
                                    }
                                },
                                cs,
                            );
                        },
                        mutable
                    )
                });
                if cs.failed() {
                    return;
                }
                if mutable {
                    verify_writes(&root, base, &yielded, cs);
                } else if root.data().iter().enumerate().any(|(i, v)| *v != i as u32) {
                    cs.fail("iter:modified", "a shared-reference iterator modified the array".into());
                }
            },
        );
    }
}

/// cells() / cells_mut() / into_iter() of arrays whose dimensions cross 256 / 65536 and of strided windows of them.
fn run_mid(c: usize, r: usize, ctx: &mut Ctx) {
    use super::hugezst::{enc, mid_sequences, run_indexed};
    let mut wins: Vec<((usize, usize), (usize, usize))> = vec![((0, 0), (c, r))];
    if c > 2 {
        wins.push(((1, 0), (c - 1, r)));
    }
    if r > 2 {
        wins.push(((0, 1), (c, r - 1)));
    }
    for (s, e) in wins {
        let (wc, wr) = (e.0 - s.0, e.1 - s.1);
        let len = wc * wr;
        for seq in mid_sequences(len, &[c, wc]) {
            for kind in 0..5u8 {
                if kind < 3 && (s, e) != ((0, 0), (c, r)) {
                    continue;
                }
                let name = ["TooDee::cells()", "TooDee::cells_mut()", "(&TooDee).into_iter()", "view(..).cells()", "view_mut(..).cells_mut()"][kind as usize];
                ctx.case(
                    || format!("TooDee<u32> {}x{} window {:?}-{:?} {}: {}", c, r, s, e, name, enc(&seq)),
                    |cs| {
                        cs.nontrivial((c, r, s, e, kind, &seq));
                        cs.outcome("mid-size");
                        cs.transitions = seq.len() as u64;
                        cs.traces = 1;
                        let mut t = new_root(c, r);
                        let base = t.data().as_ptr() as usize;
                        let what = format!("{} of the {}x{} window", name, wc, wr);
                        let ok = |addr: usize, idx: usize| {
                            let exp = base + ((s.1 + idx / wc) * c + s.0 + idx % wc) * 4;
                            if addr == exp {
                                None
                            } else {
                                Some(format!("cell #{} expected at {:#x}, got {:#x}", idx, exp, addr))
                            }
                        };
                        match kind {
                            0 => run_indexed(t.cells(), len, &seq, |e, i| ok(*e as *const u32 as usize, i), true, &what, cs),
                            1 => run_indexed(t.cells_mut(), len, &seq, |e, i| ok(&**e as *const u32 as usize, i), true, &what, cs),
                            2 => run_indexed((&t).into_iter(), len, &seq, |e, i| ok(*e as *const u32 as usize, i), true, &what, cs),
                            3 => {
                                let v = t.view(s, e);
                                run_indexed(v.cells(), len, &seq, |e, i| ok(*e as *const u32 as usize, i), true, &what, cs)
                            }
                            _ => {
                                let mut v = t.view_mut(s, e);
                                run_indexed(v.cells_mut(), len, &seq, |e, i| ok(&**e as *const u32 as usize, i), true, &what, cs)
                            }
                        }
                    },
                );
            }
        }
    }
}
