//! C16 (sorting by a row permutes whole columns) and C17 (sorting by a column permutes whole rows).

use toodee::{TooDee, TooDeeOps};

use super::ops::{apply_op, sort_is_row, sort_is_stable, Op, SORT_NAMES};
use super::recv::{Kt, Recv};
use crate::engine::util::Model;
use crate::engine::{guarded, Ctx, Profile, Prop, Tier};
use crate::with_recv;

pub struct SortP {
    pub by_row: bool,
}
pub static C16: SortP = SortP { by_row: true };
pub static C17: SortP = SortP { by_row: false };

impl SortP {
    /// (max length of the key line, max other dimension)
    fn bounds(&self, t: Tier) -> (usize, usize) {
        t.pick((5, 3), (7, 3))
    }
    fn variants(&self) -> Vec<u8> {
        (0..=10u8).filter(|v| sort_is_row(*v) == self.by_row).collect()
    }
}

/// All tuples in {0..k-1}^k (k = 0 gives the single empty tuple).
fn key_lines(k: usize) -> Vec<Vec<u8>> {
    let mut out: Vec<Vec<u8>> = vec![Vec::new()];
    for _ in 0..k {
        let mut next = Vec::new();
        for p in &out {
            for v in 0..k as u8 {
                let mut q = p.clone();
                q.push(v);
                next.push(q);
            }
        }
        out = next;
    }
    out
}

impl Prop for SortP {
    fn id(&self) -> &'static str {
        if self.by_row {
            "C16"
        } else {
            "C17"
        }
    }
    fn level(&self) -> &'static str {
        "exploration"
    }
    fn profiles(&self, _tier: Tier) -> Vec<Profile> {
        vec![Profile::Chk, Profile::Wrap]
    }
    fn units(&self, tier: Tier) -> Vec<String> {
        let (kmax, omax) = self.bounds(tier);
        let mut v = Vec::new();
        for k in 1..=kmax {
            for o in 1..=omax {
                let (c, r) = if self.by_row { (k, o) } else { (o, k) };
                let recvs = vec![
                    Recv::owned(c, r),
                    Recv::owned_spare(c, r),
                    Recv::window(c + 2, r + 2, (1, 1), (1 + c, 1 + r)),
                    Recv::window(c + 1, r, (1, 0), (1 + c, r)),
                    Recv::foreign_owned(c, r),
                    Recv::direct_long(c, r),
                    Recv::nested(c + 3, r + 2, (1, 0), (c + 3, r + 2), (1, 1), (1 + c, 1 + r)),
                ];
                for rd in recvs {
                    if k >= 6 {
                        // split the 6^6 key lines by their first key
                        for first in 0..k {
                            v.push(format!("{} {}", rd.enc(), first));
                        }
                    } else {
                        v.push(format!("{} all", rd.enc()));
                    }
                }
            }
        }
        v.push("empty".into());
        for (c, r) in crate::engine::util::shapes(3) {
            v.push(format!("zst {}x{}", c, r));
            if c > 0 {
                v.push(format!("owning {}x{}", c, r));
            }
        }
        // long key lines: std's unstable sort is an insertion sort (hence accidentally stable) up to 20
        // elements, so instability can only be observed beyond that length
        for k in [21usize, 24, 33, 40, 48] {
            for o in [1usize, 2] {
                let (c, r) = if self.by_row { (k, o) } else { (o, k) };
                v.push(format!("{} wide", Recv::owned(c, r).enc()));
                v.push(format!("{} wide", Recv::window(c + 2, r + 2, (1, 1), (1 + c, 1 + r)).enc()));
            }
        }
        // block sizes and integer widths: key lines of 64..66, 128..130, 255..257 cells (thorough: 65535..65537),
        // and the OTHER dimension at 65, 70 and 130 (whole lines longer than a 64-cell strip)
        let mut ks: Vec<usize> = vec![64, 65, 66, 70, 100, 128, 129, 130, 255, 256, 257];
        if tier == Tier::Thorough {
            ks.extend([512, 1000, 65535, 65536, 65537]);
        }
        for k in ks {
            let (c, r) = if self.by_row { (k, 2) } else { (2, k) };
            v.push(format!("{} wide", Recv::owned(c, r).enc()));
            if k <= 300 {
                v.push(format!("{} wide", Recv::window(c + 2, r + 2, (1, 1), (1 + c, 1 + r)).enc()));
            }
        }
        for o in [65usize, 70, 130] {
            for k in [3usize, 5] {
                let (c, r) = if self.by_row { (k, o) } else { (o, k) };
                v.push(format!("{} wide", Recv::owned(c, r).enc()));
                v.push(format!("{} wide", Recv::window(c + 1, r + 1, (1, 0), (1 + c, r)).enc()));
            }
        }
        v
    }
    fn run_unit(&self, unit: &str, ctx: &mut Ctx) {
        if unit == "empty" {
            self.run_empty(ctx);
            return;
        }
        if let Some(dims) = unit.strip_prefix("zst ") {
            let (c, r) = dims.split_once('x').unwrap();
            let (c, r): (usize, usize) = (c.parse().unwrap(), r.parse().unwrap());
            let mut ops: Vec<Op> = Vec::new();
            for var in self.variants() {
                let dim = if self.by_row { r } else { c };
                for i in (0..=dim + 1).chain([usize::MAX]) {
                    ops.push(Op::Sort(var, i));
                }
            }
            super::ops::zst_panic_differential(c, r, &ops, ctx);
            return;
        }
        if let Some(dims) = unit.strip_prefix("owning ") {
            let (c, r) = dims.split_once('x').unwrap();
            self.run_owning(c.parse().unwrap(), r.parse().unwrap(), ctx);
            return;
        }
        let (r, part) = unit.rsplit_once(' ').unwrap();
        let rd = Recv::parse(r);
        if part == "wide" {
            self.run_recv(&rd, None, true, ctx);
            return;
        }
        let first: Option<u8> = part.parse().ok();
        self.run_recv(&rd, first, false, ctx);
    }
    fn rule(&self) -> String {
        let (line, whole, idx) = if self.by_row { ("row", "columns", "row") } else { ("column", "rows", "column") };
        format!(
            "cells are (key, unique tag) pairs whose Ord/Eq look at the key only; for every shape in the bound the key {line} ranges over ALL of {{0..k-1}}^k (every tie pattern and every permutation, hence every input of the permutation-to-swaps routine), every {idx} index 0..=dim (dim itself is out of range), every entry point of the family \
             ({variants}); additionally key lines of length 21, 24, 33, 40 and 48 from an enumerated tie-rich family k[i] = (i*a+b) mod m (std's unstable sort is an insertion sort, hence accidentally stable, up to 20 elements), on owned arrays, interior and edge windows of a larger parent, a window of a window, a view over a longer slice, and a third-party implementor using the trait defaults. \
             Oracle: the key {line} is ordered by the comparison / key function; the multiset of whole {whole} (as tag vectors) is preserved, i.e. every original {whole_s} appears intact exactly once; the stable variants equal the model's stable sort exactly; the parent outside a window is unchanged; an out-of-range index panics and changes nothing. \
             Arrays (exact and spare capacity) and windows of elements that own a resource (drop ledger): after the sort every cell is a live element, the elements are the original ones (by identity), whole {whole} intact, and dropping the array drops each exactly once. \
             Arrays and windows of the zero-sized () must accept and reject exactly the same indices as arrays of ordinary elements. A case is (receiver, key line, index, entry point); non-trivial = in-range index; distinct by the tuple.",
            line = line,
            whole = whole,
            whole_s = &whole[..whole.len() - 1],
            idx = idx,
            variants = self.variants().iter().map(|v| SORT_NAMES[*v as usize]).collect::<Vec<_>>().join(", ")
        )
    }
    fn bound(&self, tier: Tier) -> String {
        let (k, o) = self.bounds(tier);
        format!("key line length up to {} (all {}^{} key lines), other dimension up to {}", k, k, k, o)
    }
}

impl SortP {
    fn run_empty(&self, ctx: &mut Ctx) {
        for var in self.variants() {
            ctx.case(
                || format!("empty array {}(0)", SORT_NAMES[var as usize]),
                |cs| {
                    let mut t: TooDee<Kt> = TooDee::default();
                    let res = guarded(|| apply_op(&mut t, &Op::Sort(var, 0)));
                    cs.outcome("rejected");
                    cs.nontrivial(("empty", var));
                    if res.is_ok() {
                        cs.fail("sort:accepts-out-of-range", "index 0 on an empty array did not panic".into());
                    }
                },
            );
            ctx.case(
                || format!("1x1 array {}(0)", SORT_NAMES[var as usize]),
                |cs| {
                    let mut t: TooDee<Kt> = TooDee::init(1, 1, Kt::new(1, 1));
                    let res = guarded(|| apply_op(&mut t, &Op::Sort(var, 0)));
                    cs.outcome("sorted");
                    cs.nontrivial(("1x1", var));
                    if res.is_err() || !t[(0, 0)].same(&Kt::new(1, 1)) {
                        cs.fail("sort:wrong-result", "sorting a 1x1 array failed".into());
                    }
                },
            );
        }
    }

    /// Elements that own a resource: the sort must move, never duplicate or drop, them.
    fn run_owning(&self, c: usize, r: usize, ctx: &mut Ctx) {
        use crate::engine::ledger::{self, Tracked};
        use toodee::{SortOps, TooDeeOpsMut};
        let (k, dim_idx) = if self.by_row { (c, r) } else { (r, c) };
        fn sort_tracked<X: SortOps<Tracked>>(x: &mut X, var: u8, i: usize) {
            match var {
                0 => x.sort_row_ord::<()>(i),
                1 => x.sort_unstable_row_ord::<()>(i),
                2 => x.sort_by_row(i, |a, b| a.label.cmp(&b.label)),
                3 => x.sort_unstable_by_row(i, |a, b| a.label.cmp(&b.label)),
                4 => x.sort_by_row_key(i, |a| a.label),
                5 => x.sort_unstable_by_row_key(i, |a| a.label),
                6 => x.sort_col_ord::<()>(i),
                7 => x.sort_by_col(i, |a, b| a.label.cmp(&b.label)),
                8 => x.sort_unstable_by_col(i, |a, b| a.label.cmp(&b.label)),
                9 => x.sort_by_col_key(i, |a| a.label),
                _ => x.sort_unstable_by_col_key(i, |a| a.label),
            }
        }
        for line in key_lines(k) {
            for idx in 0..dim_idx {
                for var in self.variants() {
                    for kind in 0..3u8 {
                        ctx.case(
                            || format!("TooDee<Tracked> {}x{} ({}) keys {:?} {}({})", c, r, ["exact capacity", "spare capacity", "interior window"][kind as usize], line, SORT_NAMES[var as usize], idx),
                            |cs| {
                                cs.nontrivial((c, r, kind, &line, idx, var));
                                cs.outcome("sorted");
                                let (pc, pr, off) = if kind == 2 { (c + 2, r + 1, (1usize, 1usize)) } else { (c, r, (0, 0)) };
                                let live0 = ledger::live_count();
                                let mut p: TooDee<Tracked> = TooDee::from_vec(pc, pr, (0..pc * pr).map(|i| Tracked::new(100 + i as u32)).collect());
                                for (j, key) in line.iter().enumerate() {
                                    let (x, y) = if self.by_row { (off.0 + j, off.1 + idx) } else { (off.0 + idx, off.1 + j) };
                                    p[(x, y)].label = *key as u32;
                                }
                                if kind == 1 {
                                    p.reserve(2 * c + 3);
                                }
                                let ids = |p: &TooDee<Tracked>| -> Vec<Vec<u64>> {
                                    // whole lines of the sorted region, by identity
                                    if self.by_row {
                                        (0..c).map(|x| (0..r).map(|y| p[(off.0 + x, off.1 + y)].id).collect()).collect()
                                    } else {
                                        (0..r).map(|y| (0..c).map(|x| p[(off.0 + x, off.1 + y)].id).collect()).collect()
                                    }
                                };
                                let all_before: Vec<u64> = p.data().iter().map(|e| e.id).collect();
                                let mut lines_before = ids(&p);
                                let res = guarded(|| {
                                    if kind == 2 {
                                        sort_tracked(&mut p.view_mut(off, (off.0 + c, off.1 + r)), var, idx)
                                    } else {
                                        sort_tracked(&mut p, var, idx)
                                    }
                                });
                                if let Err(m) = res {
                                    cs.fail("sort:panics-on-valid", format!("valid index but the call panicked: {}", m));
                                    std::mem::forget(p);
                                    return;
                                }
                                if p.size() != (pc, pr) || p.data().len() != pc * pr {
                                    cs.fail("sort:shape-changed", format!("size {:?} over {} cells after the sort", p.size(), p.data().len()));
                                    std::mem::forget(p);
                                    return;
                                }
                                if p.data().iter().any(|e| !e.valid()) {
                                    cs.fail("sort:dead-cell", "after the sort a cell holds an element that was already dropped (or was never constructed)".into());
                                    std::mem::forget(p);
                                    return;
                                }
                                let mut all_after: Vec<u64> = p.data().iter().map(|e| e.id).collect();
                                let mut lines_after = ids(&p);
                                let mut sorted_before = all_before.clone();
                                sorted_before.sort_unstable();
                                all_after.sort_unstable();
                                lines_before.sort();
                                lines_after.sort();
                                if sorted_before != all_after || lines_before != lines_after {
                                    cs.fail("sort:lines-not-preserved", "the elements after the sort are not the original elements in intact lines (by identity)".into());
                                    std::mem::forget(p);
                                    return;
                                }
                                drop(p);
                                let (dd, gd, first) = ledger::problems();
                                if dd + gd > 0 {
                                    cs.fail("sort:double-drop", format!("{} double / {} garbage drops: {}", dd, gd, first.unwrap_or_default()));
                                }
                                if ledger::live_count() != live0 {
                                    cs.fail("sort:leak", format!("{} elements were never dropped", ledger::live_count() - live0));
                                }
                            },
                        );
                    }
                }
            }
        }
    }

    fn run_recv(&self, rd: &Recv, first: Option<u8>, wide: bool, ctx: &mut Ctx) {
        let rd = *rd;
        let (c, r) = rd.size();
        let rect = rd.rect();
        let (k, dim_idx) = if self.by_row { (c, r) } else { (r, c) };
        let lines: Vec<Vec<u8>> = if wide {
            // an enumerated family of tie-rich key lines: k[i] = (i*a + b) mod m, plus descending and constant lines
            let mut v: Vec<Vec<u8>> = Vec::new();
            for a in [1usize, 3, 5, 7] {
                for b in [0usize, 1] {
                    for m in [2usize, 3, 4] {
                        v.push((0..k).map(|i| ((i * a + b) % m) as u8).collect());
                    }
                }
            }
            v.push((0..k).map(|i| (k - i) as u8).collect());
            v.push(vec![3; k]);
            v.push((0..k).map(|i| ((k - i) / 3) as u8).collect());
            if k <= 255 {
                // permutations that need about k swaps: rotation by one, strict reversal, a multiplicative shuffle
                v.push((0..k).map(|i| ((i + 1) % k) as u8).collect());
                v.push((0..k).map(|i| (k - 1 - i) as u8).collect());
                v.push((0..k).map(|i| ((i * 37 + 11) % k) as u8).collect());
            } else {
                // more than 256 cells: keys repeat, still far from sorted (many swaps)
                v.push((0..k).map(|i| ((i + 1) % 251) as u8).collect());
                v.push((0..k).map(|i| ((k - 1 - i) % 256) as u8).collect());
                v.push((0..k).map(|i| ((i * 37 + 11) % 256) as u8).collect());
            }
            if k > 1000 {
                // very long lines: a handful of key lines is enough
                v.truncate(0);
                v.push((0..k).map(|i| ((i * 37 + 11) % 256) as u8).collect());
                v.push((0..k).map(|i| ((k - 1 - i) % 256) as u8).collect());
                v.push((0..k).map(|i| ((i * 3) % 4) as u8).collect());
            }
            v
        } else {
            key_lines(k).into_iter().filter(|l| first.map_or(true, |f| l[0] == f)).collect()
        };
        for line in &lines {
            for idx in 0..=dim_idx {
                for var in self.variants() {
                    ctx.case(
                        || format!("{} keys {:?} {}({})", rd.enc(), line, SORT_NAMES[var as usize], idx),
                        |cs| {
                            // parent: unique tags; keys: the key line on the chosen row/column of the window, a fixed tie-rich pattern elsewhere
                            let n = rd.pc * rd.pr;
                            let mut p: TooDee<Kt> = TooDee::from_vec(rd.pc, rd.pr, (0..n).map(|i| Kt::new(((i * 3 + 1) % 4) as u8, i as u16)).collect());
                            let in_range = idx < dim_idx;
                            if in_range {
                                for (j, key) in line.iter().enumerate() {
                                    let (x, y) = if self.by_row { (rect.0 .0 + j, rect.0 .1 + idx) } else { (rect.0 .0 + idx, rect.0 .1 + j) };
                                    p[(x, y)].key = *key;
                                }
                                cs.nontrivial((rd, line, idx, var));
                            }
                            let before: Model<(u8, u16)> = Model::from_flat(rd.pc, rd.pr, &p.data().iter().map(|k| (k.key, k.tag)).collect::<Vec<_>>());
                            let res = guarded(|| with_recv!(p, rd, |x| { apply_op(x, &Op::Sort(var, idx)) }));
                            let after: Model<(u8, u16)> = Model::from_flat(rd.pc, rd.pr, &p.data().iter().map(|k| (k.key, k.tag)).collect::<Vec<_>>());
                            if !in_range {
                                cs.outcome("rejected");
                                if res.is_ok() {
                                    cs.fail("sort:accepts-out-of-range", format!("index {} is out of range ({}) but the call returned", idx, dim_idx));
                                }
                                if after != before {
                                    cs.fail("sort:rejected-but-modified", "a rejected sort modified the array".into());
                                }
                                return;
                            }
                            cs.outcome("sorted");
                            if let Err(m) = res {
                                cs.fail("sort:panics-on-valid", format!("valid index but the call panicked: {}", m));
                                return;
                            }
                            // outside the window: unchanged
                            for y in 0..rd.pr {
                                for x in 0..rd.pc {
                                    let inside = x >= rect.0 .0 && x < rect.1 .0 && y >= rect.0 .1 && y < rect.1 .1;
                                    if !inside && after.get(x, y) != before.get(x, y) {
                                        cs.fail("sort:outside-modified", format!("parent cell ({},{}) outside the window changed", x, y));
                                        return;
                                    }
                                }
                            }
                            let wb = before.window(rect.0, rect.1);
                            let wa = after.window(rect.0, rect.1);
                            // lines that must move as a whole: columns (by_row) or rows
                            let whole = |m: &Model<(u8, u16)>| -> Vec<Vec<(u8, u16)>> {
                                if self.by_row {
                                    (0..m.cols).map(|x| m.col(x)).collect()
                                } else {
                                    m.cells.clone()
                                }
                            };
                            let key_line: Vec<u8> = if self.by_row { wa.cells[idx].iter().map(|k| k.0).collect() } else { wa.col(idx).iter().map(|k| k.0).collect() };
                            if key_line.windows(2).any(|w| w[0] > w[1]) {
                                cs.fail("sort:not-ordered", format!("the key line after sorting is {:?}", key_line));
                            }
                            let mut lb = whole(&wb);
                            let mut la = whole(&wa);
                            let la_unsorted = la.clone();
                            lb.sort();
                            la.sort();
                            if lb != la {
                                cs.fail("sort:lines-not-preserved", format!("whole lines before {:?} vs after {:?}: not a permutation of intact lines", whole(&wb), la_unsorted));
                                return;
                            }
                            if sort_is_stable(var) {
                                let mut m = wb.clone();
                                if self.by_row {
                                    m.sort_cols_stable_by(idx, |k| k.0);
                                } else {
                                    m.sort_rows_stable_by(idx, |k| k.0);
                                }
                                if m != wa {
                                    cs.fail("sort:not-stable", format!("stable variant result {:?} differs from the stable sort {:?}", wa.flat().iter().map(|k| k.1).collect::<Vec<_>>(), m.flat().iter().map(|k| k.1).collect::<Vec<_>>()));
                                }
                            }
                        },
                    );
                }
            }
        }
    }
}
