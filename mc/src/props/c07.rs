//! C07 - removing a row or column yields it in order and closes the gap. Exhaustive over the
//! drain's call sequences ({next, next_back}* up to one call past exhaustion).

use std::collections::VecDeque;

use toodee::{TooDee, TooDeeOps};

use super::array_bfs::{check_state, materialize};
use super::elem::Elem;
use super::seqx::{enc_seq, ideal_step, Call, Term, Tok, TERMS};
use crate::engine::ledger::{self, Tracked};
use crate::engine::util::{shapes, Model};
use crate::engine::{guarded, Ctx, Profile, Prop, Tier};

pub struct C07P;
pub static C07: C07P = C07P;

fn n_for(t: Tier) -> usize {
    t.pick(5, 7)
}

#[derive(Default)]
struct Trace {
    /// (label, id) of each yielded element in call order, None when the call returned None
    yields: Vec<Option<(u32, Option<u64>)>>,
    lens: Vec<usize>,
    hints: Vec<(usize, Option<usize>)>,
    /// what the terminal produced: count, or the items it visited in order
    term_count: Option<usize>,
    term_items: Vec<(u32, Option<u64>)>,
    pop_none: bool,
}

fn drive<E: Elem, D: DoubleEndedIterator<Item = E> + ExactSizeIterator>(mut d: D, seq: &[Call], term: Term, tr: &mut Trace, held: &mut Vec<E>) {
    tr.lens.push(d.len());
    tr.hints.push(d.size_hint());
    for call in seq {
        let e = match call {
            Call::Next => d.next(),
            Call::NextBack => d.next_back(),
            Call::Nth(n) => d.nth(*n),
            Call::NthBack(n) => d.nth_back(*n),
        };
        tr.yields.push(e.as_ref().map(|e| (e.label(), e.ident())));
        if let Some(e) = e {
            held.push(e);
        }
        tr.lens.push(d.len());
        tr.hints.push(d.size_hint());
    }
    let mut visit = |e: E, tr: &mut Trace, held: &mut Vec<E>| {
        tr.term_items.push((e.label(), e.ident()));
        held.push(e);
    };
    match term {
        Term::None => drop(d),
        Term::Count => tr.term_count = Some(d.count()),
        Term::Last => {
            if let Some(e) = d.last() {
                visit(e, tr, held);
            }
        }
        Term::Fold => d.fold((), |_, e| visit(e, tr, held)),
        Term::ForEach => d.for_each(|e| visit(e, tr, held)),
        Term::Rfold => d.rfold((), |_, e| visit(e, tr, held)),
        Term::RevThenFwd => {
            if let Some(e) = d.by_ref().rev().next() {
                visit(e, tr, held);
            }
            for e in d {
                visit(e, tr, held);
            }
        }
        Term::SkipStep => d.skip(1).step_by(2).for_each(|e| visit(e, tr, held)),
        Term::RevSkip => d.rev().skip(1).for_each(|e| visit(e, tr, held)),
        Term::FindNone => {
            let mut all: Vec<E> = Vec::new();
            let _ = d.by_ref().find(|_| false);
            // find() dropped every element it visited; nothing is handed out
            all.extend(d);
            for e in all {
                visit(e, tr, held);
            }
        }
        Term::FindAt(k) | Term::RfindAt(k) => {
            let mut shown = 0usize;
            let pred = |_: &E| {
                shown += 1;
                shown == k as usize + 1
            };
            let f = if matches!(term, Term::FindAt(_)) { d.find(pred) } else { d.rfind(pred) };
            if let Some(e) = f {
                visit(e, tr, held);
            }
            for e in d {
                visit(e, tr, held);
            }
        }
        Term::PositionAt(k) | Term::RpositionAt(k) => {
            let mut shown = 0usize;
            let pred = |e: E| {
                shown += 1;
                visit(e, tr, held);
                shown == k as usize + 1
            };
            let p = if matches!(term, Term::PositionAt(_)) { d.position(pred) } else { d.rposition(pred) };
            tr.term_count = Some(p.unwrap_or(usize::MAX));
            for e in d {
                tr.term_items.push((e.label(), e.ident()));
                held.push(e);
            }
        }
        Term::All => {
            let _ = d.all(|e| {
                visit(e, tr, held);
                true
            });
            for e in d {
                visit(e, tr, held);
            }
        }
        Term::Any => {
            let _ = d.any(|e| {
                visit(e, tr, held);
                false
            });
            for e in d {
                visit(e, tr, held);
            }
        }
        Term::Collect => {
            let v: Vec<E> = d.collect();
            for e in v {
                visit(e, tr, held);
            }
        }
    }
}

/// The call sequences explored for a drain over a line of `len` elements:
/// (a) every sequence over {next, next_back} of length 0..=len+1 (all interleavings, one call past
/// exhaustion); (b) every sequence of length <= depth over the extended alphabet
/// {next, next_back, nth(1), nth_back(1), nth(2), nth_back(len)}, each prefix closed by every terminal.
fn drain_jobs(len: usize, depth: usize) -> Vec<(Vec<Call>, Term)> {
    let mut out: Vec<(Vec<Call>, Term)> = Vec::new();
    let mut frontier: Vec<Vec<Call>> = vec![Vec::new()];
    out.push((Vec::new(), Term::None));
    for _ in 0..len + 1 {
        let mut next = Vec::new();
        for s in &frontier {
            for c in [Call::Next, Call::NextBack] {
                let mut t = s.clone();
                t.push(c);
                next.push(t);
            }
        }
        out.extend(next.iter().cloned().map(|s| (s, Term::None)));
        frontier = next;
    }
    let alpha = [Call::Next, Call::NextBack, Call::Nth(1), Call::NthBack(1), Call::Nth(2), Call::NthBack(len)];
    let mut frontier: Vec<Vec<Call>> = vec![Vec::new()];
    for t in TERMS {
        out.push((Vec::new(), t));
    }
    for _ in 0..depth {
        let mut next = Vec::new();
        for s in &frontier {
            for c in alpha {
                let mut t = s.clone();
                t.push(c);
                next.push(t);
            }
        }
        for s in &next {
            let simple = s.iter().all(|c| matches!(c, Call::Next | Call::NextBack));
            if !(simple && s.len() <= len + 1) {
                out.push((s.clone(), Term::None));
            }
            for t in TERMS {
                out.push((s.clone(), t));
            }
        }
        frontier = next;
    }
    out
}

/// A short list of consumption patterns for long lines (the full enumeration is exponential in the line length).
fn wide_jobs(len: usize) -> Vec<(Vec<Call>, Term)> {
    let mut out: Vec<(Vec<Call>, Term)> = vec![(Vec::new(), Term::None)];
    out.push((vec![Call::Next], Term::None));
    out.push((vec![Call::NextBack], Term::None));
    out.push((vec![Call::Next, Call::NextBack, Call::Next], Term::None));
    out.push((vec![Call::Next; len + 1], Term::None));
    out.push((vec![Call::NextBack; len + 1], Term::None));
    out.push(((0..len + 2).map(|i| if i % 2 == 0 { Call::Next } else { Call::NextBack }).collect(), Term::None));
    out.push((vec![Call::Nth(len / 2), Call::NthBack(len / 4)], Term::None));
    for t in [Term::Count, Term::Last, Term::Fold, Term::Rfold, Term::Collect, Term::RevSkip, Term::SkipStep] {
        out.push((Vec::new(), t));
        out.push((vec![Call::Next, Call::NextBack], t));
    }
    out
}

fn run_shape<E: Elem>(c: usize, r: usize, ctx: &mut Ctx) {
    run_shape_with::<E>(c, r, false, ctx)
}

fn run_shape_with<E: Elem>(c: usize, r: usize, wide: bool, ctx: &mut Ctx) {
    let labels: Vec<u32> = if E::ZST { vec![0; c * r] } else { (0..(c * r) as u32).collect() };
    for op in ["remove_row", "pop_row", "remove_col", "pop_col"] {
        let row = op.ends_with("row");
        let pop = op.starts_with("pop");
        let (dim, line_len) = if row { (r, c) } else { (c, r) };
        let indices: Vec<usize> = if pop { vec![dim.wrapping_sub(1)] } else { (0..=dim).collect() };
        for &i in &indices {
            let in_range = i < dim;
            let depth = if ctx.tier == Tier::Quick { 3 } else { 4 };
            let jobs: Vec<(Vec<Call>, Term)> = if !in_range {
                vec![(Vec::new(), Term::None)]
            } else if wide {
                wide_jobs(line_len)
            } else {
                drain_jobs(line_len, depth)
            };
            if wide && !pop && i != 0 && i != dim / 2 && i + 1 < dim {
                // long lines: the first, a middle, the last and the out-of-range index
                continue;
            }
            for spare in [false, true] {
                for (seq, term) in &jobs {
                    let term = *term;
                    ctx.case(
                        || {
                            format!("TooDee<{}> {}x{} {} {}({}) then drain calls [{}], drop", E::NAME, c, r, if spare { "spare" } else { "exact" }, op, if pop { String::new() } else { i.to_string() }, enc_seq(seq, term))
                        },
                        |cs| {
                            // for long lines "spare" means room for a whole line and more
                            let mut t: TooDee<E> = if wide && spare { super::array_bfs::materialize_spare(c, r, &labels, c.max(r) + 8) } else { materialize(c, r, &labels, spare) };
                            let ids_before: Vec<Option<u64>> = t.data().iter().map(|e| e.ident()).collect();
                            let mut m: Model<u32> = Model::from_flat(c, r, &labels);
                            let mut idm: Model<Option<u64>> = Model::from_flat(c, r, &ids_before);
                            let mut tr = Trace::default();
                            let mut held: Vec<E> = Vec::new();
                            let res = guarded(|| match (row, pop) {
                                (true, false) => drive(t.remove_row(i), seq, term, &mut tr, &mut held),
                                (false, false) => drive(t.remove_col(i), seq, term, &mut tr, &mut held),
                                (true, true) => match t.pop_row() {
                                    Some(d) => drive(d, seq, term, &mut tr, &mut held),
                                    None => tr.pop_none = true,
                                },
                                (false, true) => match t.pop_col() {
                                    Some(d) => drive(d, seq, term, &mut tr, &mut held),
                                    None => tr.pop_none = true,
                                },
                            });
                            cs.transitions = seq.len() as u64 + 1 + if term == Term::None { 0 } else { 1 };
                            cs.traces = 1;
                            if !in_range {
                                // rejected: must panic (or None for pop) and leave the array untouched
                                if pop {
                                    cs.outcome("pop-none");
                                    if res.is_err() || !tr.pop_none {
                                        cs.fail("remove:pop-empty", format!("{} on an empty array did not return None ({:?})", op, res.err()));
                                    }
                                } else {
                                    cs.outcome("rejected");
                                    if res.is_ok() {
                                        cs.fail("remove:accepts-bad-index", format!("{}({}) on {}x{} returned", op, i, c, r));
                                    }
                                }
                                cs.state((E::NAME, c, r, op, i, "rejected"));
                                if check_state(&t, &m, cs, "after rejected removal") {
                                    let ids_now: Vec<Option<u64>> = t.data().iter().map(|e| e.ident()).collect();
                                    if ids_now != ids_before {
                                        cs.fail("remove:rejected-but-modified", "element identities changed by a rejected call".into());
                                    }
                                    drop(t);
                                } else {
                                    std::mem::forget(t);
                                }
                                return;
                            }
                            cs.nontrivial((E::NAME, c, r, op, i, spare, seq, term));
                            cs.outcome("removed");
                            if let Err(e) = &res {
                                cs.fail("remove:panics-on-valid", format!("valid removal panicked: {}", e));
                                std::mem::forget(t);
                                return;
                            }
                            if tr.pop_none {
                                cs.fail("remove:pop-none-nonempty", format!("{} returned None on a non-empty array", op));
                            }
                            // ideal sequence
                            let line: Vec<u32> = if row { m.remove_row(i) } else { m.remove_col(i) };
                            let idline: Vec<Option<u64>> = if row { idm.remove_row(i) } else { idm.remove_col(i) };
                            // the ideal sequence, encoded for seqx::ideal_step as (position in the line, 0)
                            let pairs: Vec<(u32, Option<u64>)> = line.iter().copied().zip(idline.iter().copied()).collect();
                            let mut ideal: VecDeque<Tok> = (0..pairs.len()).map(|k| (k, 0)).collect();
                            let mut exp_yields = Vec::new();
                            let mut exp_lens = vec![ideal.len()];
                            for call in seq.iter() {
                                exp_yields.push(ideal_step(&mut ideal, *call).map(|t| pairs[t.0]));
                                exp_lens.push(ideal.len());
                            }
                            cs.state((E::NAME, c, r, op, i, ideal.len(), ideal.front().map(|t| t.0)));
                            // terminal
                            let rest: Vec<(u32, Option<u64>)> = ideal.iter().map(|t| pairs[t.0]).collect();
                            let (exp_count, exp_items): (Option<usize>, Vec<(u32, Option<u64>)>) = match term {
                                Term::None => (None, Vec::new()),
                                Term::Count => (Some(rest.len()), Vec::new()),
                                Term::Last => (None, rest.last().copied().into_iter().collect()),
                                Term::Fold | Term::ForEach => (None, rest.clone()),
                                Term::Rfold => (None, rest.iter().rev().copied().collect()),
                                Term::SkipStep => (None, rest.iter().skip(1).step_by(2).copied().collect()),
                                Term::RevSkip => (None, rest.iter().rev().skip(1).copied().collect()),
                                Term::FindNone => (None, Vec::new()),
                                Term::RevThenFwd => {
                                    let mut v: Vec<(u32, Option<u64>)> = Vec::new();
                                    if let Some(l) = rest.last() {
                                        v.push(*l);
                                        v.extend(rest[..rest.len() - 1].iter().copied());
                                    }
                                    (None, v)
                                }
                                Term::FindAt(_) | Term::RfindAt(_) | Term::PositionAt(_) | Term::RpositionAt(_) | Term::All | Term::Any | Term::Collect => {
                                    let toks: Vec<Tok> = (0..rest.len()).map(|k| (k, 0)).collect();
                                    let ji = super::seqx::jump_ideal(term, &toks).unwrap();
                                    let items = ji.visited.iter().chain(ji.left.iter().flatten()).map(|t| rest[t.0]).collect();
                                    let cnt = if matches!(term, Term::PositionAt(_) | Term::RpositionAt(_)) { Some(ji.index.unwrap().unwrap_or(usize::MAX)) } else { None };
                                    (cnt, items)
                                }
                            };
                            if tr.term_count != exp_count || tr.term_items != exp_items {
                                cs.fail("drain:terminal", format!("{:?} gave count {:?} items {:?}, expected {:?} / {:?} (label, id)", term, tr.term_count, tr.term_items, exp_count, exp_items));
                            }
                            if tr.yields != exp_yields {
                                cs.fail("drain:items", format!("drain yielded {:?}, the ideal sequence gives {:?} (label, id)", tr.yields, exp_yields));
                            }
                            if tr.lens != exp_lens {
                                cs.fail("drain:len", format!("len() after each call {:?}, expected {:?}", tr.lens, exp_lens));
                            }
                            let exp_hints: Vec<(usize, Option<usize>)> = exp_lens.iter().map(|l| (*l, Some(*l))).collect();
                            if tr.hints != exp_hints {
                                cs.fail("drain:size_hint", format!("size_hint() after each call {:?}, expected {:?}", tr.hints, exp_hints));
                            }
                            if held.iter().any(|e| !e.sane()) {
                                cs.fail("drain:dead-item", "a yielded element is dead (already dropped) while the caller holds it".into());
                            }
                            if !check_state(&t, &m, cs, "after the drain was dropped") {
                                std::mem::forget(t);
                                std::mem::forget(held);
                                return;
                            }
                            let ids_now: Vec<Option<u64>> = t.data().iter().map(|e| e.ident()).collect();
                            if ids_now != idm.flat() {
                                cs.fail("remove:identities", "remaining cells are not the original elements in their original relative positions".into());
                            }
                            if let Some(live) = E::live() {
                                let expect = (m.cols * m.rows + held.len()) as u64;
                                if live != expect {
                                    cs.fail("remove:ledger", format!("{} elements alive, expected {} (cells left) + {} (held by the caller)", live, m.cols * m.rows, held.len()));
                                }
                            }
                            drop(held);
                            drop(t);
                            if E::TRACKED {
                                let (dd, gd, first) = ledger::problems();
                                if dd + gd > 0 {
                                    cs.fail("remove:double-drop", format!("{} double / {} garbage drops: {}", dd, gd, first.unwrap_or_default()));
                                }
                                if E::live() != Some(0) {
                                    cs.fail("remove:leak", format!("{:?} elements still alive after everything was dropped", E::live()));
                                }
                            }
                        },
                    );
                }
            }
        }
    }
}

/// Arrays of `()` whose cell count is at or near usize::MAX (only zero-sized elements can get
/// there): the arithmetic of removal must not overflow. Only operations whose work is proportional
/// to the SMALL dimension are run.
fn run_huge_zst(ctx: &mut Ctx) {
    let m = usize::MAX;
    let shapes: Vec<(usize, usize)> = vec![(m, 1), (m - 1, 1), (m / 3, 3), (m / 5, 5), (m / 2, 2), (1, m), (1, m - 1), (3, m / 3), (5, m / 5), (1 << 32, 1 << 31)];
    for (c, r) in shapes {
        for op in ["remove_col", "pop_col", "remove_row", "pop_row"] {
            let row = op.ends_with("row");
            // a column drain has `r` items and its destructor walks them; a row drain of () has no drop work
            if !row && r > 8 {
                continue;
            }
            let dim = if row { r } else { c };
            // only the LAST line (and out-of-range indices): removing an inner line of such an array may
            // legitimately take time proportional to the huge dimension in a different implementation
            let idxs: Vec<usize> = if op.starts_with("pop") { vec![dim - 1] } else { vec![dim - 1, dim, usize::MAX] };
            for i in idxs {
                for take in 0..3usize {
                    ctx.case(
                        || format!("TooDee<()> {}x{} {}({}) take {} then drop", c, r, op, i, take),
                        |cs| {
                            cs.transitions = 1 + take as u64;
                            cs.traces = 1;
                            let mut t: TooDee<()> = TooDee::init(c, r, ());
                            let in_range = i < dim;
                            let line = if row { c } else { r };
                            let mut lens: Vec<usize> = Vec::new();
                            let res = guarded(|| {
                                macro_rules! go {
                                    ($d:expr) => {{
                                        let mut d = $d;
                                        lens.push(d.len());
                                        for k in 0..take {
                                            let _ = if k % 2 == 0 { d.next() } else { d.next_back() };
                                            lens.push(d.len());
                                        }
                                        drop(d);
                                    }};
                                }
                                match op {
                                    "remove_col" => go!(t.remove_col(i)),
                                    "remove_row" => go!(t.remove_row(i)),
                                    "pop_col" => go!(t.pop_col().unwrap()),
                                    _ => go!(t.pop_row().unwrap()),
                                }
                            });
                            cs.state((c, r, op, i, take));
                            if !in_range {
                                cs.outcome("rejected");
                                if res.is_ok() {
                                    cs.fail("remove:accepts-bad-index", format!("{}({}) on {}x{} returned", op, i, c, r));
                                }
                                if t.size() != (c, r) || t.data().len() != c * r {
                                    cs.fail("remove:rejected-but-modified", format!("size {:?}, {} cells", t.size(), t.data().len()));
                                }
                                return;
                            }
                            cs.outcome("removed");
                            cs.nontrivial((c, r, op, i, take));
                            if let Err(e) = res {
                                cs.fail("remove:panics-on-valid", format!("valid removal on a huge zero-sized array panicked: {}", e));
                                return;
                            }
                            let exp_lens: Vec<usize> = (0..=take).map(|k| line.saturating_sub(k)).collect();
                            if lens != exp_lens {
                                cs.fail("drain:len", format!("len() sequence {:?}, expected {:?}", lens, exp_lens));
                            }
                            let expect = if row { if r == 1 { (0, 0) } else { (c, r - 1) } } else if c == 1 { (0, 0) } else { (c - 1, r) };
                            if t.size() != expect || t.data().len() != expect.0 * expect.1 {
                                cs.fail("remove:huge-dims", format!("size {:?} with {} cells, expected {:?}", t.size(), t.data().len(), expect));
                            }
                        },
                    );
                }
            }
        }
    }
}

impl Prop for C07P {
    fn id(&self) -> &'static str {
        "C07"
    }
    fn level(&self) -> &'static str {
        "model_checking"
    }
    fn profiles(&self, _tier: Tier) -> Vec<Profile> {
        vec![Profile::Chk, Profile::Wrap, Profile::Rel]
    }
    fn units(&self, tier: Tier) -> Vec<String> {
        let mut v = Vec::new();
        for (c, r) in shapes(n_for(tier)) {
            for tag in ["U", "T", "Z"] {
                v.push(format!("{} {}x{}", tag, c, r));
            }
        }
        // lines wider than 256 bytes (the stack buffer of slice::rotate) and than the block sizes of chunked loops
        for (c, r) in [(70usize, 3usize), (3, 70), (12, 4), (4, 12), (33, 2)] {
            v.push(format!("WU {}x{}", c, r));
            v.push(format!("WT {}x{}", c, r));
        }
        if tier == Tier::Thorough {
            // arrays of () with close to usize::MAX cells: thorough tier only, because they assume that
            // appending / removing the last line does not take time proportional to the cell count
            v.push("hugezst".into());
        }
        v
    }
    fn run_unit(&self, unit: &str, ctx: &mut Ctx) {
        if unit == "hugezst" {
            run_huge_zst(ctx);
            return;
        }
        let (tag, dims) = unit.split_once(' ').unwrap();
        let (c, r) = dims.split_once('x').unwrap();
        let (c, r): (usize, usize) = (c.parse().unwrap(), r.parse().unwrap());
        match tag {
            "WU" => run_shape_with::<u32>(c, r, true, ctx),
            "WT" => run_shape_with::<Tracked>(c, r, true, ctx),
            "U" => run_shape::<u32>(c, r, ctx),
            "Z" => run_shape::<crate::engine::ledger::TrackedZst>(c, r, ctx),
            _ => run_shape::<Tracked>(c, r, ctx),
        }
    }
    fn page_guard(&self, tier: Tier, profile: Profile) -> bool {
        let _ = (tier, profile);
        true
    }
    fn rule(&self) -> String {
        "(arrays of () with usize::MAX, MAX-1, MAX/3 x 3, ... cells are additionally run through the removal of their last row / column and through out-of-range removals) every shape (0..=N)^2 x {remove_row(i), remove_col(i) : i in 0..=dim} + pop_row + pop_col (also on the empty array) x element type {u32, Tracked, a zero-sized type with a destructor (counted)} x {exact, spare} capacity (plus lines of 12, 33 and 70 cells - wider than 256 bytes - with room for a whole further line, under a short list of consumption patterns) x EVERY sequence over {next, next_back} of length 0..=len+1 (all interleavings, including one call past exhaustion) plus every sequence up to depth 3 (thorough: 4) over the extended alphabet {next, next_back, nth(1), nth_back(1), nth(2), nth_back(len)} with every prefix closed by count / last / fold / rfold / for_each / rev-then-forward (the adaptors skip, step_by and rev are built on these), with len() and size_hint() observed after every call, then the drain is dropped. \
         Oracle: each call's result equals the ideal double-ended sequence of the removed line (by label and by element identity); len()/size_hint() exact at every step; after the drop the array equals the model without that line (same elements, same relative positions), (0,0) if it was the last line; ledger: yielded elements stay alive while held, the rest of the line is dropped exactly once, nothing else; out-of-range index panics and leaves the array untouched; pop on empty returns None; guard allocator clean. \
         states = distinct (shape, op, index, front/back cursor) positions of the ideal sequence reached; transitions = drain calls; traces_validated_against_impl = drain lifetimes executed on the real code."
            .into()
    }
    fn bound(&self, tier: Tier) -> String {
        format!("N = {}: all call sequences up to length {}", n_for(tier), n_for(tier) + 1)
    }
}
