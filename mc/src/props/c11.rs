//! C11 - a panic in caller-supplied code leaves a valid array (crash-point enumeration).
//!
//! For every operation instance: run 0 is fault free and counts the calls into caller code
//! (M ticks); runs k = 0..M-1 make the k-th call panic. After catch_unwind the array is examined
//! and then used (see exam.rs).

use toodee::{CopyOps, SortOps, TooDee, TooDeeOps, TooDeeOpsMut};

use super::exam::{exam, ledger_ok};
use crate::engine::ledger::{self, tick, FaultIter, Tracked};
use crate::engine::util::{shapes, windows};
use crate::engine::{guarded, Ctx, Profile, Prop, Tier};

pub struct C11P;
pub static C11: C11P = C11P;

#[derive(Clone, Debug, Hash, PartialEq, Eq)]
pub enum FOp {
    New,
    Init,
    Clone,
    FromView(bool, (usize, usize), (usize, usize)),
    Fill,
    Clear,
    Replace(usize, usize),
    DropArray,
    /// dest window (None = the owned array itself)
    CloneFromSlice(Option<((usize, usize), (usize, usize))>),
    CloneFromToodee(Option<((usize, usize), (usize, usize))>),
    /// op 0 insert_row, 1 push_row, 2 insert_col, 3 push_col; index; lie: 0 honest, 1 len-1, 2 len+1, 3 zero, 4 MAX/2+1, 5 MAX
    Insert(u8, usize, u8),
    /// op 0 remove_row, 1 pop_row, 2 remove_col, 3 pop_col; index; front; back
    Remove(u8, usize, usize, usize),
    /// variant, index, window
    Sort(u8, usize, Option<((usize, usize), (usize, usize))>),
    /// Clone::clone_from from a source of the given shape
    CloneFrom(usize, usize),
    /// op 0 remove_row, 2 remove_col; index; consumption 0 nth(1), 1 nth_back(1), 2 skip(1).step_by(2), 3 rev().skip(1)
    RemoveVia(u8, usize, u8),
}

pub struct St {
    pub t: Option<TooDee<Tracked>>,
    pub extra: Vec<TooDee<Tracked>>,
    pub held: Vec<Tracked>,
}

pub fn label_for(i: usize) -> u32 {
    ((i * 7 + 3) % 5) as u32
}

pub fn build(c: usize, r: usize, spare: bool) -> TooDee<Tracked> {
    let n = c * r;
    let mut v = Vec::with_capacity(n + if spare { 24 } else { 0 });
    for i in 0..n {
        v.push(Tracked::new(label_for(i)));
    }
    TooDee::from_vec(c, r, v)
}

/// Executes the operation. Everything that runs here counts as "during the operation".
pub fn exec(op: &FOp, c: usize, r: usize, st: &mut St) {
    match op {
        FOp::New => st.extra.push(TooDee::new(c, r)),
        FOp::Init => st.extra.push(TooDee::init(c, r, Tracked::new(5))),
        FOp::Clone => {
            let cl = st.t.as_ref().unwrap().clone();
            st.extra.push(cl);
        }
        FOp::FromView(mutable, s, e) => {
            let t = st.t.as_mut().unwrap();
            let cl = if *mutable { TooDee::from(t.view_mut(*s, *e)) } else { TooDee::from(t.view(*s, *e)) };
            st.extra.push(cl);
        }
        FOp::Fill => st.t.as_mut().unwrap().fill(Tracked::new(6)),
        FOp::Clear => st.t.as_mut().unwrap().clear(),
        FOp::Replace(x, y) => st.t.as_mut().unwrap()[(*x, *y)] = Tracked::new(9),
        FOp::DropArray => drop(st.t.take()),
        FOp::CloneFromSlice(w) => {
            let t = st.t.as_mut().unwrap();
            match w {
                None => {
                    let src: Vec<Tracked> = (0..c * r).map(|i| Tracked::new(100 + i as u32)).collect();
                    t.clone_from_slice(&src)
                }
                Some((s, e)) => {
                    let mut v = t.view_mut(*s, *e);
                    let src: Vec<Tracked> = (0..v.num_cols() * v.num_rows()).map(|i| Tracked::new(100 + i as u32)).collect();
                    v.clone_from_slice(&src)
                }
            }
        }
        FOp::CloneFromToodee(w) => {
            let t = st.t.as_mut().unwrap();
            match w {
                None => {
                    let src = build(c, r, false);
                    t.clone_from_toodee(&src)
                }
                Some((s, e)) => {
                    let mut v = t.view_mut(*s, *e);
                    let src = build(v.num_cols(), v.num_rows(), false);
                    v.clone_from_toodee(&src)
                }
            }
        }
        FOp::Insert(which, i, lie) => {
            let t = st.t.as_mut().unwrap();
            let row = *which <= 1;
            let other = if row { t.num_cols() } else { t.num_rows() };
            let true_len = if other == 0 { 2 } else { other };
            let items: Vec<Tracked> = (0..true_len).map(|j| Tracked::new(200 + j as u32)).collect();
            let it = match lie {
                0 => FaultIter::new(items),
                1 => FaultIter::lying(items, true_len - 1),
                2 => FaultIter::lying(items, true_len + 1),
                3 => FaultIter::lying(items, 0),
                4 => FaultIter::lying(items, usize::MAX / 2 + 1),
                _ => FaultIter::lying(items, usize::MAX),
            };
            match which {
                0 => t.insert_row(*i, it),
                1 => t.push_row(it),
                2 => t.insert_col(*i, it),
                _ => t.push_col(it),
            }
        }
        FOp::Remove(which, i, f, b) => {
            let t = st.t.as_mut().unwrap();
            macro_rules! consume {
                ($d:expr) => {{
                    let mut d = $d;
                    for _ in 0..*f {
                        if let Some(e) = d.next() {
                            st.held.push(e);
                        }
                    }
                    for _ in 0..*b {
                        if let Some(e) = d.next_back() {
                            st.held.push(e);
                        }
                    }
                    drop(d);
                }};
            }
            match which {
                0 => consume!(t.remove_row(*i)),
                1 => {
                    if let Some(d) = t.pop_row() {
                        consume!(d)
                    }
                }
                2 => consume!(t.remove_col(*i)),
                _ => {
                    if let Some(d) = t.pop_col() {
                        consume!(d)
                    }
                }
            }
        }
        FOp::CloneFrom(c2, r2) => {
            let src = build(*c2, *r2, false);
            st.t.as_mut().unwrap().clone_from(&src);
        }
        FOp::RemoveVia(which, i, mode) => {
            let t = st.t.as_mut().unwrap();
            macro_rules! via {
                ($d:expr) => {{
                    let mut d = $d;
                    match mode {
                        0 => st.held.extend(d.nth(1)),
                        1 => st.held.extend(d.nth_back(1)),
                        2 => st.held.extend(d.by_ref().skip(1).step_by(2)),
                        _ => st.held.extend(d.by_ref().rev().skip(1)),
                    }
                    drop(d);
                }};
            }
            if *which == 0 {
                via!(t.remove_row(*i))
            } else {
                via!(t.remove_col(*i))
            }
        }
        FOp::Sort(v, i, w) => {
            let t = st.t.as_mut().unwrap();
            let i = *i;
            macro_rules! sort_on {
                ($x:expr) => {{
                    let x = $x;
                    match v {
                        0 => x.sort_row_ord::<()>(i),
                        1 => x.sort_unstable_row_ord::<()>(i),
                        2 => x.sort_by_row(i, |a, b| {
                            tick("comparator");
                            a.label.cmp(&b.label)
                        }),
                        3 => x.sort_unstable_by_row(i, |a, b| {
                            tick("comparator");
                            a.label.cmp(&b.label)
                        }),
                        4 => x.sort_by_row_key(i, |a| {
                            tick("key");
                            a.label
                        }),
                        5 => x.sort_unstable_by_row_key(i, |a| {
                            tick("key");
                            a.label
                        }),
                        6 => x.sort_col_ord::<()>(i),
                        7 => x.sort_by_col(i, |a, b| {
                            tick("comparator");
                            a.label.cmp(&b.label)
                        }),
                        8 => x.sort_unstable_by_col(i, |a, b| {
                            tick("comparator");
                            a.label.cmp(&b.label)
                        }),
                        9 => x.sort_by_col_key(i, |a| {
                            tick("key");
                            a.label
                        }),
                        _ => x.sort_unstable_by_col_key(i, |a| {
                            tick("key");
                            a.label
                        }),
                    }
                }};
            }
            match w {
                None => sort_on!(t),
                Some((s, e)) => {
                    let mut vw = t.view_mut(*s, *e);
                    sort_on!(&mut vw)
                }
            }
        }
    }
}

fn needs_array(op: &FOp) -> bool {
    !matches!(op, FOp::New | FOp::Init)
}

pub fn ops_for(c: usize, r: usize) -> Vec<FOp> {
    let mut v = vec![FOp::New, FOp::Init, FOp::Clone, FOp::Fill, FOp::Clear, FOp::DropArray, FOp::CloneFromSlice(None), FOp::CloneFromToodee(None)];
    for (s, e) in windows(c, r) {
        v.push(FOp::FromView(false, s, e));
        v.push(FOp::FromView(true, s, e));
        if e.0 > s.0 && e.1 > s.1 {
            v.push(FOp::CloneFromSlice(Some((s, e))));
            v.push(FOp::CloneFromToodee(Some((s, e))));
        }
    }
    if c > 0 {
        v.push(FOp::Replace(0, 0));
        v.push(FOp::Replace(c - 1, r - 1));
    }
    for lie in 0..=5u8 {
        for i in 0..=r {
            v.push(FOp::Insert(0, i, lie));
        }
        v.push(FOp::Insert(1, 0, lie));
        for i in 0..=c {
            v.push(FOp::Insert(2, i, lie));
        }
        v.push(FOp::Insert(3, 0, lie));
    }
    let splits = |len: usize| -> Vec<(usize, usize)> {
        let mut s = Vec::new();
        for f in 0..=len {
            for b in 0..=(len - f) {
                s.push((f, b));
            }
        }
        s
    };
    for (f, b) in splits(c) {
        for i in 0..r {
            v.push(FOp::Remove(0, i, f, b));
        }
        v.push(FOp::Remove(1, 0, f, b));
    }
    for (f, b) in splits(r) {
        for i in 0..c {
            v.push(FOp::Remove(2, i, f, b));
        }
        v.push(FOp::Remove(3, 0, f, b));
    }
    for (c2, r2) in [(c, r), (r, c), (0, 0), (c + 1, r.max(1)), (1, 1), (c * r, 1), (c, r.saturating_sub(1))] {
        if (c2 == 0) == (r2 == 0) {
            v.push(FOp::CloneFrom(c2, r2));
        }
    }
    for mode in 0..4u8 {
        for i in 0..r {
            v.push(FOp::RemoveVia(0, i, mode));
        }
        for i in 0..c {
            v.push(FOp::RemoveVia(2, i, mode));
        }
    }
    let mut wins: Vec<Option<((usize, usize), (usize, usize))>> = vec![None];
    if c >= 2 {
        wins.push(Some(((1, 0), (c, r))));
    }
    if r >= 2 {
        wins.push(Some(((0, 1), (c, r))));
    }
    if c >= 3 && r >= 3 {
        wins.push(Some(((1, 1), (c - 1, r - 1))));
    }
    for w in wins {
        let (wc, wr) = match w {
            None => (c, r),
            Some((s, e)) => (e.0 - s.0, e.1 - s.1),
        };
        for var in 0..=10u8 {
            let dim = if var <= 5 { wr } else { wc };
            for i in 0..dim {
                v.push(FOp::Sort(var, i, w));
            }
        }
    }
    v
}

impl Prop for C11P {
    fn id(&self) -> &'static str {
        "C11"
    }
    fn level(&self) -> &'static str {
        "fault_enumeration"
    }
    fn profiles(&self, _tier: Tier) -> Vec<Profile> {
        vec![Profile::Chk, Profile::Wrap, Profile::Rel]
    }
    fn units(&self, tier: Tier) -> Vec<String> {
        let n = tier.pick(4, 5);
        let mut v = Vec::new();
        for (c, r) in shapes(n) {
            let nops = ops_for(c, r).len();
            // split the operation list of a shape into chunks
            let chunk = 24;
            let mut i = 0;
            while i < nops {
                v.push(format!("{}x{} {} {}", c, r, i, (i + chunk).min(nops)));
                i += chunk;
            }
            v.push(format!("nodrop {}x{}", c, r));
        }
        v
    }
    fn run_unit(&self, unit: &str, ctx: &mut Ctx) {
        if let Some(dims) = unit.strip_prefix("nodrop ") {
            let (c, r) = dims.split_once('x').unwrap();
            run_nodrop(c.parse().unwrap(), r.parse().unwrap(), ctx);
            return;
        }
        let p: Vec<&str> = unit.split(' ').collect();
        let (c, r) = p[0].split_once('x').unwrap();
        let (c, r): (usize, usize) = (c.parse().unwrap(), r.parse().unwrap());
        let (from, to): (usize, usize) = (p[1].parse().unwrap(), p[2].parse().unwrap());
        let ops = ops_for(c, r);
        let second = ctx.tier == Tier::Thorough;
        for op in &ops[from..to] {
            for spare in [false, true] {
                run_op(op, c, r, spare, second, ctx);
            }
        }
    }
    fn page_guard(&self, tier: Tier, profile: Profile) -> bool {
        let _ = (tier, profile);
        true
    }
    fn rule(&self) -> String {
        "operations that run caller code, on TooDee<Tracked> of every shape in the bound, exact and spare capacity: new (Default), init/fill/clone/TooDee::from(view) of every window/clone_from_slice/clone_from_toodee on the array and on windows (Clone, and Drop of overwritten cells), \
         insert_row/push_row/insert_col/push_col at every index from a custom iterator whose len/next/next_back are caller code (honest, and lying: len-1, len+1, 0, usize::MAX/2+1, usize::MAX), remove_row/remove_col/pop_row/pop_col at every index with every front/back consumption split and through nth / nth_back / skip+step_by / rev+skip (Drop of skipped and undrained elements), clear, indexed replacement and drop (Drop), \
         all eleven sorts at every valid index on the array and on windows (comparator / key function / Ord::cmp). \
         The insertions are repeated over a move-only element type WITHOUT drop glue (a token with an identity): after a fault no token may be reachable through two cells. \
         For each instance: a fault-free run counts the M calls into caller code; then for every k < M the k-th call panics and the panic is caught. After every run (faulted or not): shape invariant; every reachable cell is live, canary-valid and pairwise distinct; then all cells are read through Index/rows/cells/col, two cells replaced, a row and a column pushed, inserted, removed and popped, the array dropped, everything held by the harness dropped; no double drop, no drop of a never-constructed value (leaks allowed), guard allocator clean. \
         A case is (shape, capacity, operation instance, k); non-trivial = the fault fired (k-th call reached); distinct by the tuple. Thorough tier: the whole history is re-executed for every (first fault k1, second operation from a menu of 7, second fault k2 or none), i.e. two-fault histories are enumerated exhaustively over that menu."
            .into()
    }
    fn bound(&self, tier: Tier) -> String {
        tier.pick("shapes up to 4x4, one fault per history", "shapes up to 5x5, up to two faults per history (every crash point of a second operation from a menu of 7)").into()
    }
    fn assumptions(&self) -> Vec<String> {
        vec![
            "single fault per operation: the clock never fires while the thread is already unwinding (a second panic during unwinding aborts by language rule)".into(),
            "leaks are allowed by the property and are not reported".into(),
        ]
    }
}

fn second_menu(c: usize, r: usize) -> Vec<FOp> {
    let mut v = vec![FOp::Fill, FOp::Clone];
    v.push(FOp::Insert(0, r.min(1), 0));
    v.push(FOp::Insert(2, c.min(1), 0));
    if r > 0 {
        v.push(FOp::Remove(0, 0, 0, 0));
        v.push(FOp::Remove(2, 0, 0, 0));
        v.push(FOp::Sort(2, 0, None));
    }
    debug_assert!(v.len() <= MENU_LEN);
    v
}

#[derive(Clone, Copy, Debug)]
struct Plan {
    k1: Option<u64>,
    /// second operation (menu index) and its crash point (None = fault-free second operation)
    second: Option<(usize, Option<u64>)>,
}
#[derive(Default)]
struct Out {
    ticks1: u64,
    ticks2: u64,
    fired1: bool,
    survivor_ok: bool,
}

fn run_plan(op: &FOp, c: usize, r: usize, spare: bool, plan: Plan, ctx: &mut Ctx) -> Out {
    let mut out = Out::default();
    let pilot = plan.k1.is_none() || matches!(plan.second, Some((_, None))) || plan.second.is_none();
    let desc = || format!("TooDee<Tracked> {}x{} {} {:?} fault at call #{:?}; second operation {:?}", c, r, if spare { "spare" } else { "exact" }, op, plan.k1, plan.second.map(|(j, k2)| (second_menu(c, r).get(j).cloned(), k2)));
    let body = |cs: &mut crate::engine::Case| {
            let mut st = St { t: if needs_array(op) { Some(build(c, r, spare)) } else { None }, extra: Vec::new(), held: Vec::new() };
            ledger::arm(plan.k1.unwrap_or(u64::MAX));
            let res = guarded(|| exec(op, c, r, &mut st));
            out.ticks1 = ledger::disarm();
            let kind = ledger::fault_kind();
            out.fired1 = !kind.is_empty();
            match plan.k1 {
                None => {
                    cs.outcome(if res.is_ok() { "fault-free:ok" } else { "fault-free:rejected" });
                    cs.nontrivial((c, r, spare, op, "fault-free"));
                }
                Some(k) => {
                    if !out.fired1 {
                        cs.outcome("fault-not-reached");
                        cs.fail("harness:nondeterministic-ticks", format!("call #{} was reached in the counting run but not in the faulted run", k));
                    } else {
                        cs.outcome(if plan.second.is_some() { "faulted-twice" } else { "faulted" });
                        cs.nontrivial((c, r, spare, op, k, plan.second));
                    }
                }
            }
            let mut what = format!("after {:?} (fault in {})", op, if kind.is_empty() { "-" } else { kind });
            // optional second operation on the surviving array (only the primary array, if any)
            if let Some((j, k2)) = plan.second {
                if let Some(t) = st.t.as_ref() {
                    if super::exam::shape_ok(t, cs, &what) {
                        out.survivor_ok = true;
                        let (sc, sr) = t.size();
                        let menu = second_menu(sc, sr);
                        if let Some(op2) = menu.get(j) {
                            ledger::arm(k2.unwrap_or(u64::MAX));
                            let _ = guarded(|| exec(op2, sc, sr, &mut st));
                            out.ticks2 = ledger::disarm();
                            what = format!("{}, then {:?} (second fault at call #{:?} in {})", what, op2, k2, ledger::fault_kind());
                        }
                    } else {
                        std::mem::forget(st.t.take());
                    }
                }
            }
            let survivors: Vec<TooDee<Tracked>> = st.t.take().into_iter().chain(st.extra.drain(..)).collect();
            for t in survivors {
                exam(t, cs, &what);
            }
            drop(std::mem::take(&mut st.held));
            ledger_ok(cs, &format!("{} and dropping everything held", what));
    };
    if pilot {
        ctx.pilot_case(desc, body);
    } else {
        ctx.case(desc, body);
    }
    out
}

const MENU_LEN: usize = 7;

/// For the checks of other properties: every owned array that survives (operation instance, k-th call into
/// caller code panicking and caught) for every operation of `ops_for(c, r)`, handed to `f` together with a
/// description (and every array left behind by a leaked row / column drain). `f` owns the survivor: it must drop it, or forget it if it is not trustworthy. The fault-free
/// run is included (k = None). Arrays created by the operation (clones, conversions) are leaked.
pub fn for_each_survivor(c: usize, r: usize, ctx: &mut Ctx, f: &mut dyn FnMut(TooDee<Tracked>, &str, &mut crate::engine::Case)) {
    // arrays left behind by a LEAKED drain (mem::forget after f items from the front and b from the back)
    for row in [true, false] {
        let (dim, line) = if row { (r, c) } else { (c, r) };
        for i in 0..dim {
            for (fr, bk) in [(0usize, 0usize), (1, 0), (0, 1), (line, 0)] {
                if fr + bk > line {
                    continue;
                }
                ctx.case(
                    || format!("TooDee<Tracked> {}x{} after {}({}) whose drain was leaked with {} taken from the front and {} from the back", c, r, if row { "remove_row" } else { "remove_col" }, i, fr, bk),
                    |cs| {
                        cs.outcome("leaked-drain");
                        cs.nontrivial((c, r, row, i, fr, bk));
                        let mut t = build(c, r, false);
                        let mut held: Vec<Tracked> = Vec::new();
                        let res = guarded(|| {
                            macro_rules! leak {
                                ($d:expr) => {{
                                    let mut d = $d;
                                    for _ in 0..fr {
                                        held.extend(d.next());
                                    }
                                    for _ in 0..bk {
                                        held.extend(d.next_back());
                                    }
                                    std::mem::forget(d);
                                }};
                            }
                            if row {
                                leak!(t.remove_row(i))
                            } else {
                                leak!(t.remove_col(i))
                            }
                        });
                        if res.is_err() {
                            std::mem::forget(t);
                            return;
                        }
                        f(t, &format!("after {}({}) with the drain leaked ({} front, {} back taken)", if row { "remove_row" } else { "remove_col" }, i, fr, bk), cs);
                        drop(held);
                    },
                );
            }
        }
    }
    for op in ops_for(c, r) {
        if !needs_array(&op) || matches!(op, FOp::DropArray) {
            continue;
        }
        let mut ticks = 0u64;
        ctx.pilot_case(
            || format!("TooDee<Tracked> {}x{} after {:?} (no fault)", c, r, op),
            |cs| {
                let mut st = St { t: Some(build(c, r, false)), extra: Vec::new(), held: Vec::new() };
                ledger::arm(u64::MAX);
                let _ = guarded(|| exec(&op, c, r, &mut st));
                ticks = ledger::disarm();
                cs.outcome("fault-free");
                cs.nontrivial((c, r, &op, "fault-free"));
                std::mem::forget(std::mem::take(&mut st.extra));
                if let Some(t) = st.t.take() {
                    f(t, &format!("after {:?}", op), cs);
                }
            },
        );
        for k in 0..ticks {
            ctx.case(
                || format!("TooDee<Tracked> {}x{} after {:?} with call #{} into caller code panicking (caught)", c, r, op, k),
                |cs| {
                    let mut st = St { t: Some(build(c, r, false)), extra: Vec::new(), held: Vec::new() };
                    ledger::arm(k);
                    let _ = guarded(|| exec(&op, c, r, &mut st));
                    ledger::disarm();
                    let kind = ledger::fault_kind();
                    cs.outcome("faulted");
                    cs.nontrivial((c, r, &op, k));
                    std::mem::forget(std::mem::take(&mut st.extra));
                    if let Some(t) = st.t.take() {
                        f(t, &format!("after {:?} with a caught panic in {} (call #{})", op, kind, k), cs);
                    }
                },
            );
        }
    }
}

fn run_op(op: &FOp, c: usize, r: usize, spare: bool, second: bool, ctx: &mut Ctx) {
    let o = run_plan(op, c, r, spare, Plan { k1: None, second: None }, ctx);
    for k in 0..o.ticks1 {
        let f = run_plan(op, c, r, spare, Plan { k1: Some(k), second: None }, ctx);
        if second && f.fired1 {
            for j in 0..MENU_LEN {
                let s0 = run_plan(op, c, r, spare, Plan { k1: Some(k), second: Some((j, None)) }, ctx);
                if !s0.survivor_ok {
                    break;
                }
                for k2 in 0..s0.ticks2 {
                    run_plan(op, c, r, spare, Plan { k1: Some(k), second: Some((j, Some(k2))) }, ctx);
                }
            }
        }
    }
}

/// A move-only element without drop glue: duplicating it is as wrong as duplicating an owning element (think of
/// `&mut U` cells), but no destructor will ever tell. Only its identity can.
pub struct Token(pub u64);

/// insert_row / push_row / insert_col / push_col of tokens from an iterator whose k-th call panics or whose
/// length lies: afterwards the shape invariant must hold and no token may sit in two cells.
fn run_nodrop(c: usize, r: usize, ctx: &mut Ctx) {
    let build_tokens = || -> TooDee<Token> { TooDee::from_vec(c, r, (0..(c * r) as u64).map(Token).collect()) };
    for which in 0..4u8 {
        let row = which <= 1;
        let indices: Vec<usize> = if which % 2 == 1 { vec![0] } else { (0..=if row { r } else { c }).collect() };
        for i in indices {
            for lie in 0..3u8 {
                let run = |k: Option<u64>, cs: &mut crate::engine::Case| -> u64 {
                    let mut t = build_tokens();
                    let other = if row { c } else { r };
                    let true_len = if other == 0 { 2 } else { other };
                    let items: Vec<Token> = (0..true_len as u64).map(|j| Token(1000 + j)).collect();
                    let it = match lie {
                        0 => FaultIter::new(items),
                        1 => FaultIter::lying(items, true_len - 1),
                        _ => FaultIter::lying(items, true_len + 1),
                    };
                    ledger::arm(k.unwrap_or(u64::MAX));
                    let _ = guarded(|| match which {
                        0 => t.insert_row(i, it),
                        1 => t.push_row(it),
                        2 => t.insert_col(i, it),
                        _ => t.push_col(it),
                    });
                    let ticks = ledger::disarm();
                    let what = format!("after {} of tokens at {} (lie {}, fault at call #{:?})", ["insert_row", "push_row", "insert_col", "push_col"][which as usize], i, lie, k);
                    let (nc, nr) = (t.num_cols(), t.num_rows());
                    if nc.checked_mul(nr) != Some(t.data().len()) || (nc == 0) != (nr == 0) {
                        cs.fail("after-fault:shape-len", format!("{}: size ({},{}) over {} cells", what, nc, nr, t.data().len()));
                    } else {
                        let mut seen = std::collections::HashSet::new();
                        for tok in t.data() {
                            let known = tok.0 < (c * r) as u64 || (1000..1000 + true_len as u64).contains(&tok.0);
                            if !known {
                                cs.fail("after-fault:dead-cell", format!("{}: a cell holds {:#x}, which was neither in the array nor supplied", what, tok.0));
                                break;
                            }
                            if !seen.insert(tok.0) {
                                cs.fail("after-fault:duplicate-cell", format!("{}: token {} is reachable through two cells", what, tok.0));
                                break;
                            }
                        }
                    }
                    ticks
                };
                let mut ticks = 0u64;
                ctx.pilot_case(
                    || format!("TooDee<Token> {}x{} op {} index {} lie {} (no fault)", c, r, which, i, lie),
                    |cs| {
                        cs.outcome("fault-free:ok");
                        cs.nontrivial((c, r, which, i, lie, "count"));
                        ticks = run(None, cs);
                    },
                );
                for k in 0..ticks {
                    ctx.case(
                        || format!("TooDee<Token> {}x{} op {} index {} lie {} with call #{} panicking", c, r, which, i, lie, k),
                        |cs| {
                            cs.outcome("faulted");
                            cs.nontrivial((c, r, which, i, lie, k));
                            run(Some(k), cs);
                        },
                    );
                }
            }
        }
    }
}
