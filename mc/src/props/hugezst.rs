//! Iterators over arrays of `()` with close to usize::MAX cells (only zero-sized elements get there):
//! the length / cursor arithmetic of the iterators must not overflow. Items of such iterators carry
//! no address, so the ideal sequence is tracked by COUNT only: every call must return Some/None as the
//! ideal sequence does and len()/size_hint() must be exact after every call.
//!
//! Only calls that cannot be slow under any implementation are made: next / next_back / nth(small) /
//! nth_back(small) anywhere, jumps by huge n and terminals (count, last) only when at most four items
//! are left (a provided-method implementation would otherwise walk 2^64 items).

use toodee::TooDee;

use crate::engine::{guarded, Case};

/// Shapes (cols, rows) with close to usize::MAX cells.
pub fn shapes() -> Vec<(usize, usize)> {
    let m = usize::MAX;
    vec![(m, 1), (1, m), (m / 2, 2), (2, m / 2), (m / 3, 3), (3, m / 3), (m / 5, 5), (5, m / 5), (1 << 32, (1 << 32) - 1), ((1 << 32) - 1, 1 << 32), (1 << 32, 2), (2, 1 << 32), (1 << 33, 3)]
}

pub fn array(c: usize, r: usize) -> TooDee<()> {
    TooDee::init(c, r, ())
}

#[derive(Clone, Copy, Debug, PartialEq, Eq, Hash)]
pub enum HCall {
    Next,
    NextBack,
    Nth(usize),
    NthBack(usize),
    Count,
    Last,
}

/// Call sequences for an iterator of `len` items.
pub fn sequences(len: usize, strides: &[usize]) -> Vec<Vec<HCall>> {
    let mut huge: Vec<usize> = vec![usize::MAX, usize::MAX - 1, usize::MAX / 2, usize::MAX / 2 + 1, 1 << 32, 1 << 33, (1 << 32) + 1, 1 << 63, len, len.wrapping_sub(1), len.wrapping_add(1), len.wrapping_sub(2), len / 2, 254, 255, 256, 257, 65534, 65535, 65536, 65537];
    for &s in strides {
        if s > 1 {
            huge.push(usize::MAX / s);
            huge.push(usize::MAX / s + 1);
            huge.push((usize::MAX / s).wrapping_add(2));
        }
    }
    huge.sort_unstable();
    huge.dedup();
    let small = [HCall::Next, HCall::NextBack, HCall::Nth(0), HCall::Nth(1), HCall::Nth(2), HCall::NthBack(0), HCall::NthBack(1), HCall::NthBack(2)];
    let mut out: Vec<Vec<HCall>> = vec![Vec::new()];
    // every sequence of up to three small calls ...
    let mut frontier: Vec<Vec<HCall>> = vec![Vec::new()];
    for _ in 0..3 {
        let mut next = Vec::new();
        for s in &frontier {
            for c in small {
                let mut t = s.clone();
                t.push(c);
                next.push(t);
            }
        }
        out.extend(next.iter().cloned());
        frontier = next;
    }
    // ... and, after up to one small call, a jump by a huge n (executed only when few items are left, see `run`)
    // followed by one more call, and the terminals
    let mut with_jump: Vec<Vec<HCall>> = Vec::new();
    for pre in [vec![], vec![HCall::Next], vec![HCall::NextBack], vec![HCall::Nth(1)], vec![HCall::NthBack(1)]] {
        for &h in &huge {
            for j in [HCall::Nth(h), HCall::NthBack(h)] {
                for post in [HCall::Next, HCall::NextBack] {
                    let mut t = pre.clone();
                    t.push(j);
                    t.push(post);
                    with_jump.push(t);
                }
            }
        }
        for term in [HCall::Count, HCall::Last] {
            let mut t = pre.clone();
            t.push(term);
            with_jump.push(t);
        }
    }
    out.extend(with_jump);
    out
}

pub fn enc(seq: &[HCall]) -> String {
    seq.iter().map(|c| format!("{:?}", c)).collect::<Vec<_>>().join(",")
}

/// Runs one sequence on a fresh iterator of `len` items. `item_ok` validates a yielded item.
/// If a call falls under the slow-call rule the rest of the sequence is not run.
pub fn run<I, F>(it: I, len: usize, seq: &[HCall], mut item_ok: F, what: &str, cs: &mut Case)
where
    I: DoubleEndedIterator + ExactSizeIterator,
    F: FnMut(&I::Item) -> Option<String>,
{
    run_indexed(it, len, seq, |x, _| item_ok(x), false, what, cs)
}

/// As `run`; `item_ok` is also told the position (in the ideal sequence of `len` items) of the item it is shown,
/// and `any_jump` lifts the slow-call rule (for arrays of ordinary size).
pub fn run_indexed<I, F>(mut it: I, len: usize, seq: &[HCall], mut item_ok: F, any_jump: bool, what: &str, cs: &mut Case)
where
    I: DoubleEndedIterator + ExactSizeIterator,
    F: FnMut(&I::Item, usize) -> Option<String>,
{
    let mut rem = len;
    // items taken from the front / from the back so far
    let (mut taken_f, mut taken_b) = (0usize, 0usize);
    let sizes = |it: &I, rem: usize, at: &str, cs: &mut Case| {
        match guarded(|| (it.len(), it.size_hint())) {
            Ok((l, h)) => {
                if l != rem || h != (rem, Some(rem)) {
                    cs.fail("hugezst:len", format!("{} {}: len() = {}, size_hint() = {:?}, but {} items are left", what, at, l, h, rem));
                }
            }
            Err(m) => cs.fail("hugezst:panic", format!("{} {}: len() / size_hint() panicked: {}", what, at, m)),
        }
    };
    sizes(&it, rem, "fresh", cs);
    for (k, call) in seq.iter().enumerate() {
        if cs.failed() {
            return;
        }
        let at = format!("after call #{} {:?}", k + 1, call);
        // the slow-call rule
        let jump = match call {
            HCall::Nth(n) | HCall::NthBack(n) => *n > 2,
            HCall::Count | HCall::Last => true,
            _ => false,
        };
        if jump && rem > 4 && !any_jump {
            return;
        }
        match call {
            HCall::Count => {
                match guarded(move || it.count()) {
                    Ok(n) if n == rem => {}
                    Ok(n) => cs.fail("hugezst:count", format!("{} {}: count() = {} but {} items are left", what, at, n, rem)),
                    Err(m) => cs.fail("hugezst:panic", format!("{} {}: panicked: {}", what, at, m)),
                }
                return;
            }
            HCall::Last => {
                match guarded(move || it.last().is_some()) {
                    Ok(s) if s == (rem > 0) => {}
                    Ok(s) => cs.fail("hugezst:last", format!("{} {}: last().is_some() = {} but {} items are left", what, at, s, rem)),
                    Err(m) => cs.fail("hugezst:panic", format!("{} {}: panicked: {}", what, at, m)),
                }
                return;
            }
            _ => {}
        }
        let got = guarded(|| match call {
            HCall::Next => it.next(),
            HCall::NextBack => it.next_back(),
            HCall::Nth(n) => it.nth(*n),
            HCall::NthBack(n) => it.nth_back(*n),
            _ => unreachable!(),
        });
        let front = matches!(call, HCall::Next | HCall::Nth(_));
        let skip = match call {
            HCall::Nth(n) | HCall::NthBack(n) => *n,
            _ => 0,
        };
        // position of the expected item in the ideal sequence
        let exp_pos: Option<usize> = if skip < rem { Some(if front { taken_f + skip } else { len - 1 - taken_b - skip }) } else { None };
        let exp_some = exp_pos.is_some();
        if exp_some {
            rem -= skip + 1;
            if front {
                taken_f += skip + 1;
            } else {
                taken_b += skip + 1;
            }
        } else {
            // everything that was left is gone
            if front {
                taken_f += rem;
            } else {
                taken_b += rem;
            }
            rem = 0;
        }
        match got {
            Err(m) => {
                cs.fail("hugezst:panic", format!("{} {}: panicked: {}", what, at, m));
                return;
            }
            Ok(g) => {
                if g.is_some() != exp_some {
                    cs.fail("hugezst:wrong-item", format!("{} {}: returned {} but the ideal sequence gives {}", what, at, if g.is_some() { "Some" } else { "None" }, if exp_some { "Some" } else { "None" }));
                    return;
                }
                if let Some(x) = &g {
                    if let Some(m) = item_ok(x, exp_pos.unwrap_or(0)) {
                        cs.fail("hugezst:wrong-item", format!("{} {}: {}", what, at, m));
                        return;
                    }
                }
            }
        }
        sizes(&it, rem, &at, cs);
    }
}

/// Windows of a huge c x r array: the whole, and windows that leave out the first / last column or row.
pub fn windows(c: usize, r: usize) -> Vec<((usize, usize), (usize, usize))> {
    let mut v = vec![((0, 0), (c, r)), ((c - 1, r - 1), (c, r))];
    if c > 1 {
        v.push(((1, 0), (c, r)));
        v.push(((0, 0), (c - 1, r)));
    }
    if r > 1 {
        v.push(((0, 1), (c, r)));
        v.push(((0, 0), (c, r - 1)));
    }
    if c > 1 && r > 1 {
        v.push(((1, 1), (c, r)));
    }
    if c > 2 && r > 2 {
        v.push(((1, 1), (c - 1, r - 1)));
    }
    v
}

pub fn parse_shape(s: &str) -> (usize, usize) {
    let (c, r) = s.split_once('x').unwrap();
    (c.parse().unwrap(), r.parse().unwrap())
}

/// Shapes of ordinary (u32) arrays whose dimensions cross 256 and 65536: sizes at which std's algorithms change
/// strategy and at which a narrowed integer (u8 / u16) would truncate.
pub fn mid_shapes(tier: crate::engine::Tier) -> Vec<(usize, usize)> {
    let mut v = vec![(257, 3), (3, 257), (300, 1), (1, 300)];
    if tier == crate::engine::Tier::Thorough {
        v.extend([(65537, 1), (1, 65537), (65537, 2), (2, 65537), (300, 300)]);
    }
    v
}
/// The call sequences used on those: for small lengths all of `sequences`, above 1000 items only the ones that jump.
pub fn mid_sequences(len: usize, strides: &[usize]) -> Vec<Vec<HCall>> {
    let all = sequences(len, strides);
    if len <= 1000 {
        all
    } else {
        all.into_iter().filter(|s| s.len() <= 1 || s.iter().any(|c| matches!(c, HCall::Nth(n) | HCall::NthBack(n) if *n > 2) || matches!(c, HCall::Count | HCall::Last))).collect()
    }
}
