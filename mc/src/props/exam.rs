//! Post-fault examination of an array (C11, C12): shape invariant, every reachable cell live and
//! distinct, then the array is read, modified, grown, shrunk and dropped; the ledger must show
//! no double drop and no drop of a never-constructed value. Leaks are allowed.

use std::collections::HashSet;

use toodee::{TooDee, TooDeeOps, TooDeeOpsMut};

use super::elem::Elem;
use crate::engine::ledger;
use crate::engine::{guarded, Case};

/// Returns false if the array had to be abandoned (forgotten) because it is not trustworthy.
pub fn exam<E: Elem>(mut t: TooDee<E>, cs: &mut Case, what: &str) -> bool {
    if !shape_ok(&t, cs, what) {
        std::mem::forget(t);
        return false;
    }
    let (nc, nr) = t.size();
    // every reachable cell
    let mut ids: HashSet<u64> = HashSet::new();
    for r in 0..nr {
        for c in 0..nc {
            let e = &t[(c, r)];
            if !e.sane() {
                cs.fail("after-fault:dead-cell", format!("{}: cell ({},{}) holds a dead or never-constructed element {:?}", what, c, r, e));
                std::mem::forget(t);
                return false;
            }
            if let Some(id) = e.ident() {
                if !ids.insert(id) {
                    cs.fail("after-fault:duplicate-cell", format!("{}: element id {} is reachable through two cells", what, id));
                    std::mem::forget(t);
                    return false;
                }
            }
        }
    }
    // use it: read
    let used = guarded(|| {
        let mut n = 0usize;
        for row in t.rows() {
            n += row.iter().filter(|e| e.sane()).count();
        }
        let m = t.cells().filter(|e| e.sane()).count();
        let mut k = 0usize;
        for c in 0..t.num_cols() {
            k += t.col(c).filter(|e| e.sane()).count();
        }
        (n, m, k)
    });
    match used {
        Ok((n, m, k)) => {
            if n != nc * nr || m != nc * nr || k != nc * nr {
                cs.fail("after-fault:read", format!("{}: rows()/cells()/col() reach {}/{}/{} live cells, expected {}", what, n, m, k, nc * nr));
            }
        }
        Err(e) => cs.fail("after-fault:read-panics", format!("{}: reading the array panicked: {}", what, e)),
    }
    // modify: replace a cell, grow and shrink in both directions
    let r = guarded(|| {
        if nc > 0 {
            t[(0, 0)] = E::make(777);
            let last = (nc - 1, nr - 1);
            t[last] = E::make(778);
        }
        let w = if t.num_cols() == 0 { 2 } else { t.num_cols() };
        t.push_row((0..w).map(|i| E::make(800 + i as u32)).collect::<Vec<_>>());
        let h = t.num_rows();
        t.push_col((0..h).map(|i| E::make(820 + i as u32)).collect::<Vec<_>>());
        t.insert_row(0, (0..t.num_cols()).map(|i| E::make(840 + i as u32)).collect::<Vec<_>>());
        t.insert_col(0, (0..t.num_rows()).map(|i| E::make(860 + i as u32)).collect::<Vec<_>>());
        drop(t.remove_col(0));
        drop(t.remove_row(0));
        if let Some(mut d) = t.pop_col() {
            let _ = d.next();
        }
        if let Some(mut d) = t.pop_row() {
            let _ = d.next_back();
        }
    });
    if let Err(e) = r {
        cs.fail("after-fault:modify-panics", format!("{}: modifying the surviving array panicked: {}", what, e));
        std::mem::forget(t);
        return false;
    }
    if !shape_ok(&t, cs, &format!("{} (after modifying the surviving array)", what)) {
        std::mem::forget(t);
        return false;
    }
    if t.size() != (nc, nr) && !(nc == 0 && t.size() == (0, 0)) {
        cs.fail("after-fault:modify-wrong-size", format!("{}: push/pop round trip changed the size from {:?} to {:?}", what, (nc, nr), t.size()));
    }
    for e in t.data() {
        if !e.sane() {
            cs.fail("after-fault:dead-cell", format!("{}: after modification a cell holds a dead element {:?}", what, e));
            std::mem::forget(t);
            return false;
        }
    }
    drop(t);
    ledger_ok(cs, what)
}

pub fn shape_ok<E: Elem>(t: &TooDee<E>, cs: &mut Case, what: &str) -> bool {
    let (nc, nr) = t.size();
    let len = t.data().len();
    if nc.checked_mul(nr) != Some(len) {
        cs.fail("after-fault:shape-len", format!("{}: size() = ({},{}) but data().len() = {}", what, nc, nr, len));
        return false;
    }
    if (nc == 0) != (nr == 0) {
        cs.fail("after-fault:shape-zero-rule", format!("{}: size() = ({},{}) has exactly one zero dimension", what, nc, nr));
        return false;
    }
    if t.rows().len() != nr || t.cells().len() != len || (0..nc).any(|c| t.col(c).len() != nr) {
        cs.fail("after-fault:shape-iter-len", format!("{}: rows()/cells()/col() lengths disagree with size() = ({},{})", what, nc, nr));
        return false;
    }
    true
}

pub fn ledger_ok(cs: &mut Case, what: &str) -> bool {
    let (dd, gd, first) = ledger::problems();
    if dd > 0 {
        cs.fail("after-fault:double-drop", format!("{}: {} double drop(s): {}", what, dd, first.clone().unwrap_or_default()));
    }
    if gd > 0 {
        cs.fail("after-fault:garbage-drop", format!("{}: {} drop(s) of never-constructed values: {}", what, gd, first.unwrap_or_default()));
    }
    if ledger::zst_dropped() > ledger::zst_created() {
        cs.fail("after-fault:double-drop", format!("{}: {} zero-sized elements dropped but only {} created", what, ledger::zst_dropped(), ledger::zst_created()));
        return false;
    }
    dd == 0 && gd == 0
}
