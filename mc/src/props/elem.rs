//! Element types used by the harnesses.

use crate::engine::ledger::{self, Tracked, TrackedZst};
use toodee::{CopyOps, TooDee};

pub trait Elem: Clone + Ord + Default + std::fmt::Debug + 'static {
    const NAME: &'static str;
    const ZST: bool;
    const TRACKED: bool;
    fn make(label: u32) -> Self;
    fn label(&self) -> u32;
    /// Properly constructed and still live (always true for plain data).
    fn sane(&self) -> bool;
    /// Identity for distinctness checks (None for plain data).
    fn ident(&self) -> Option<u64>;
    fn try_copy_within(_t: &mut TooDee<Self>, _src: ((usize, usize), (usize, usize)), _dst: (usize, usize)) -> bool {
        false
    }
    /// Number of elements of this type currently alive according to the ledger (None if untracked).
    fn live() -> Option<u64>;
}

impl Elem for u32 {
    const NAME: &'static str = "u32";
    const ZST: bool = false;
    const TRACKED: bool = false;
    fn make(label: u32) -> u32 {
        label
    }
    fn label(&self) -> u32 {
        *self
    }
    fn sane(&self) -> bool {
        true
    }
    fn ident(&self) -> Option<u64> {
        None
    }
    fn try_copy_within(t: &mut TooDee<u32>, src: ((usize, usize), (usize, usize)), dst: (usize, usize)) -> bool {
        t.copy_within(src, dst);
        true
    }
    fn live() -> Option<u64> {
        None
    }
}

impl Elem for Tracked {
    const NAME: &'static str = "Tracked";
    const ZST: bool = false;
    const TRACKED: bool = true;
    fn make(label: u32) -> Tracked {
        Tracked::new(label)
    }
    fn label(&self) -> u32 {
        self.label
    }
    fn sane(&self) -> bool {
        self.valid()
    }
    fn ident(&self) -> Option<u64> {
        Some(self.id)
    }
    fn live() -> Option<u64> {
        Some(ledger::live_count() as u64)
    }
}

impl Elem for TrackedZst {
    const NAME: &'static str = "TrackedZst";
    const ZST: bool = true;
    const TRACKED: bool = true;
    fn make(_: u32) -> TrackedZst {
        TrackedZst::new()
    }
    fn label(&self) -> u32 {
        0
    }
    fn sane(&self) -> bool {
        true
    }
    fn ident(&self) -> Option<u64> {
        None
    }
    fn live() -> Option<u64> {
        Some(ledger::zst_created().wrapping_sub(ledger::zst_dropped()))
    }
}
