//! Receivers (owned array, mutable windows, nested windows, third-party implementors) and the
//! machinery shared by the bounded-exhaustive transition checks on them.

use std::cmp::Ordering;
use std::ops::{Index, IndexMut};

use toodee::{Col, ColMut, Coordinate, CopyOps, Rows, RowsMut, TooDee, TooDeeOps, TooDeeOpsMut, TooDeeView, TooDeeViewMut};

use crate::engine::util::Model;

/// Cell with a sort key and a unique tag. Ord/Eq look at the key only (so that the `*_ord` sort
/// variants see ties); `same` compares both.
#[derive(Clone, Copy, Debug, Default, Hash)]
pub struct Kt {
    pub key: u8,
    pub tag: u16,
}
impl Kt {
    pub fn new(key: u8, tag: u16) -> Kt {
        Kt { key, tag }
    }
    pub fn same(&self, o: &Kt) -> bool {
        self.key == o.key && self.tag == o.tag
    }
}
impl PartialEq for Kt {
    fn eq(&self, o: &Kt) -> bool {
        self.key == o.key
    }
}
impl Eq for Kt {}
impl PartialOrd for Kt {
    fn partial_cmp(&self, o: &Kt) -> Option<Ordering> {
        Some(self.cmp(o))
    }
}
impl Ord for Kt {
    fn cmp(&self, o: &Kt) -> Ordering {
        self.key.cmp(&o.key)
    }
}

/// Parent array with unique tags 0.. and key = tag (mod 256).
pub fn parent_kt(c: usize, r: usize) -> TooDee<Kt> {
    TooDee::from_vec(c, r, (0..c * r).map(|i| Kt::new(i as u8, i as u16)).collect())
}
pub fn tags(t: &TooDee<Kt>) -> Vec<(u8, u16)> {
    t.data().iter().map(|k| (k.key, k.tag)).collect()
}
pub fn model_of_kt(t: &TooDee<Kt>) -> Model<(u8, u16)> {
    Model::from_flat(t.num_cols(), t.num_rows(), &tags(t))
}

#[derive(Clone, Copy, Debug, PartialEq, Eq, Hash)]
pub enum RK {
    Owned,
    /// owned array whose Vec has room for at least two more rows (spare capacity)
    OwnedSpare,
    ViewMut,
    Nested,
    ForeignOwned,
    ForeignWindow,
    /// TooDeeViewMut::new over a slice that is LONGER than cols*rows (one surplus row)
    DirectLong,
}

/// A receiver: parent shape plus (for windows) the rectangle(s).
#[derive(Clone, Copy, Debug, PartialEq, Eq, Hash)]
pub struct Recv {
    pub kind: RK,
    pub pc: usize,
    pub pr: usize,
    pub s: Coordinate,
    pub e: Coordinate,
    /// inner window relative to the outer one (Nested only)
    pub s2: Coordinate,
    pub e2: Coordinate,
}

fn norm(s: Coordinate, e: Coordinate) -> (Coordinate, Coordinate) {
    if e.0 == s.0 || e.1 == s.1 {
        (s, s)
    } else {
        (s, e)
    }
}

impl Recv {
    pub fn owned(c: usize, r: usize) -> Recv {
        Recv { kind: RK::Owned, pc: c, pr: r, s: (0, 0), e: (c, r), s2: (0, 0), e2: (0, 0) }
    }
    pub fn owned_spare(c: usize, r: usize) -> Recv {
        Recv { kind: RK::OwnedSpare, ..Recv::owned(c, r) }
    }
    pub fn foreign_owned(c: usize, r: usize) -> Recv {
        Recv { kind: RK::ForeignOwned, ..Recv::owned(c, r) }
    }
    pub fn window(pc: usize, pr: usize, s: Coordinate, e: Coordinate) -> Recv {
        Recv { kind: RK::ViewMut, pc, pr, s, e, s2: (0, 0), e2: (0, 0) }
    }
    pub fn foreign_window(pc: usize, pr: usize, s: Coordinate, e: Coordinate) -> Recv {
        Recv { kind: RK::ForeignWindow, ..Recv::window(pc, pr, s, e) }
    }
    /// A c x r view built directly over the data of a c x (r+1) parent (1 x 1 for the empty view).
    pub fn direct_long(c: usize, r: usize) -> Recv {
        let (pc, pr) = if c == 0 { (1, 1) } else { (c, r + 1) };
        Recv { kind: RK::DirectLong, pc, pr, s: (0, 0), e: (c, r), s2: (0, 0), e2: (0, 0) }
    }
    pub fn nested(pc: usize, pr: usize, s: Coordinate, e: Coordinate, s2: Coordinate, e2: Coordinate) -> Recv {
        Recv { kind: RK::Nested, pc, pr, s, e, s2, e2 }
    }
    /// Absolute rectangle (start, end) inside the parent; an empty window is reported as (s, s).
    pub fn rect(&self) -> (Coordinate, Coordinate) {
        match self.kind {
            RK::Owned | RK::OwnedSpare | RK::ForeignOwned => ((0, 0), (self.pc, self.pr)),
            RK::ViewMut | RK::ForeignWindow | RK::DirectLong => norm(self.s, self.e),
            RK::Nested => {
                let (os, oe) = norm(self.s, self.e);
                if os == oe {
                    return (os, os);
                }
                norm((os.0 + self.s2.0, os.1 + self.s2.1), (os.0 + self.e2.0, os.1 + self.e2.1))
            }
        }
    }
    /// Size of the receiver.
    pub fn size(&self) -> (usize, usize) {
        let (s, e) = self.rect();
        let (c, r) = (e.0 - s.0, e.1 - s.1);
        if c == 0 || r == 0 {
            (0, 0)
        } else {
            (c, r)
        }
    }
    pub fn enc(&self) -> String {
        match self.kind {
            RK::Owned => format!("O{}x{}", self.pc, self.pr),
            RK::OwnedSpare => format!("OS{}x{}", self.pc, self.pr),
            RK::ForeignOwned => format!("FO{}x{}", self.pc, self.pr),
            RK::ViewMut => format!("V{}x{}[{},{}-{},{}]", self.pc, self.pr, self.s.0, self.s.1, self.e.0, self.e.1),
            RK::ForeignWindow => format!("FW{}x{}[{},{}-{},{}]", self.pc, self.pr, self.s.0, self.s.1, self.e.0, self.e.1),
            RK::DirectLong => format!("DL{}x{}[{},{}]", self.pc, self.pr, self.e.0, self.e.1),
            RK::Nested => format!(
                "N{}x{}[{},{}-{},{}][{},{}-{},{}]",
                self.pc, self.pr, self.s.0, self.s.1, self.e.0, self.e.1, self.s2.0, self.s2.1, self.e2.0, self.e2.1
            ),
        }
    }
    pub fn parse(s: &str) -> Recv {
        let nums: Vec<usize> = s.split(|ch: char| !ch.is_ascii_digit()).filter(|x| !x.is_empty()).map(|x| x.parse().unwrap()).collect();
        if s.starts_with("DL") {
            return Recv { kind: RK::DirectLong, pc: nums[0], pr: nums[1], s: (0, 0), e: (nums[2], nums[3]), s2: (0, 0), e2: (0, 0) };
        }
        if s.starts_with("OS") {
            return Recv::owned_spare(nums[0], nums[1]);
        }
        if s.starts_with("FO") {
            Recv::foreign_owned(nums[0], nums[1])
        } else if s.starts_with("FW") {
            Recv::foreign_window(nums[0], nums[1], (nums[2], nums[3]), (nums[4], nums[5]))
        } else if s.starts_with('O') {
            Recv::owned(nums[0], nums[1])
        } else if s.starts_with('V') {
            Recv::window(nums[0], nums[1], (nums[2], nums[3]), (nums[4], nums[5]))
        } else if s.starts_with('N') {
            Recv::nested(nums[0], nums[1], (nums[2], nums[3]), (nums[4], nums[5]), (nums[6], nums[7]), (nums[8], nums[9]))
        } else {
            panic!("bad receiver {}", s)
        }
    }
}

/// Third-party implementor that owns its storage: forwards only the required methods.
pub struct ForeignOwned<T>(pub TooDee<T>);
/// Third-party implementor over a window.
pub struct ForeignWindow<'a, T>(pub TooDeeViewMut<'a, T>);

macro_rules! foreign_impl {
    ($ty:ty, $($lt:lifetime)?) => {
        impl<$($lt,)? T> Index<usize> for $ty {
            type Output = [T];
            fn index(&self, row: usize) -> &[T] {
                &self.0[row]
            }
        }
        impl<$($lt,)? T> Index<Coordinate> for $ty {
            type Output = T;
            fn index(&self, c: Coordinate) -> &T {
                &self.0[c]
            }
        }
        impl<$($lt,)? T> IndexMut<usize> for $ty {
            fn index_mut(&mut self, row: usize) -> &mut [T] {
                &mut self.0[row]
            }
        }
        impl<$($lt,)? T> IndexMut<Coordinate> for $ty {
            fn index_mut(&mut self, c: Coordinate) -> &mut T {
                &mut self.0[c]
            }
        }
        impl<$($lt,)? T> TooDeeOps<T> for $ty {
            fn num_cols(&self) -> usize {
                self.0.num_cols()
            }
            fn num_rows(&self) -> usize {
                self.0.num_rows()
            }
            fn view(&self, s: Coordinate, e: Coordinate) -> TooDeeView<'_, T> {
                self.0.view(s, e)
            }
            fn rows(&self) -> Rows<'_, T> {
                self.0.rows()
            }
            fn col(&self, c: usize) -> Col<'_, T> {
                self.0.col(c)
            }
            unsafe fn get_unchecked_row(&self, row: usize) -> &[T] {
                self.0.get_unchecked_row(row)
            }
            unsafe fn get_unchecked(&self, c: Coordinate) -> &T {
                self.0.get_unchecked(c)
            }
        }
        impl<$($lt,)? T> TooDeeOpsMut<T> for $ty {
            fn view_mut(&mut self, s: Coordinate, e: Coordinate) -> TooDeeViewMut<'_, T> {
                self.0.view_mut(s, e)
            }
            fn rows_mut(&mut self) -> RowsMut<'_, T> {
                self.0.rows_mut()
            }
            fn col_mut(&mut self, c: usize) -> ColMut<'_, T> {
                self.0.col_mut(c)
            }
            unsafe fn get_unchecked_row_mut(&mut self, row: usize) -> &mut [T] {
                self.0.get_unchecked_row_mut(row)
            }
            unsafe fn get_unchecked_mut(&mut self, c: Coordinate) -> &mut T {
                self.0.get_unchecked_mut(c)
            }
        }
        impl<$($lt,)? T> CopyOps<T> for $ty {}
    };
}
foreign_impl!(ForeignOwned<T>,);
foreign_impl!(ForeignWindow<'a, T>, 'a);

/// Runs `$body` with `$r` bound to `&mut <receiver>` built over `$parent` (a `TooDee<_>` lvalue).
/// The body is expanded once per receiver kind (the traits are not object safe).
#[macro_export]
macro_rules! with_recv {
    ($parent:expr, $rd:expr, |$r:ident| $body:block) => {{
        use $crate::props::recv::{ForeignOwned, ForeignWindow, RK};
        #[allow(unused_imports)]
        use toodee::{TooDeeOps as _, TooDeeOpsMut as _};
        match $rd.kind {
            RK::Owned => {
                let $r = &mut $parent;
                $body
            }
            RK::OwnedSpare => {
                let extra__ = $parent.num_cols() * 2 + 3;
                $parent.reserve(extra__);
                let $r = &mut $parent;
                $body
            }
            RK::ViewMut => {
                let mut vm__ = $parent.view_mut($rd.s, $rd.e);
                let $r = &mut vm__;
                $body
            }
            RK::Nested => {
                let mut outer__ = $parent.view_mut($rd.s, $rd.e);
                let mut vm__ = outer__.view_mut($rd.s2, $rd.e2);
                let $r = &mut vm__;
                $body
            }
            RK::ForeignOwned => {
                let mut fo__ = ForeignOwned(std::mem::take(&mut $parent));
                let res__ = {
                    let $r = &mut fo__;
                    std::panic::catch_unwind(std::panic::AssertUnwindSafe(|| $body))
                };
                $parent = fo__.0;
                match res__ {
                    Ok(v) => v,
                    Err(e) => std::panic::resume_unwind(e),
                }
            }
            RK::ForeignWindow => {
                let mut fw__ = ForeignWindow($parent.view_mut($rd.s, $rd.e));
                let $r = &mut fw__;
                $body
            }
            RK::DirectLong => {
                let mut vm__ = toodee::TooDeeViewMut::new($rd.e.0, $rd.e.1, $parent.data_mut());
                let $r = &mut vm__;
                $body
            }
        }
    }};
}

/// All receivers over parents up to n x n: owned shapes, every window (ViewMut), optionally the
/// third-party implementors and nested windows (windows of windows of the n x n parent only).
#[derive(Clone, Copy, PartialEq, Eq)]
pub enum Nest {
    No,
    /// windows of three outer windows of each listed parent: (1,1)-(pc,pr), (0,0)-(pc-1,pr-1), (1,0)-(pc-1,pr)
    Sample,
    All,
}
pub fn receivers(n: usize, foreign: bool, nested: Nest, windows_of: &[(usize, usize)]) -> Vec<Recv> {
    use crate::engine::util::{shapes, windows};
    let mut v = Vec::new();
    for (c, r) in shapes(n) {
        v.push(Recv::owned(c, r));
        v.push(Recv::owned_spare(c, r));
        v.push(Recv::direct_long(c, r));
        if foreign {
            v.push(Recv::foreign_owned(c, r));
        }
    }
    for &(pc, pr) in windows_of {
        for (s, e) in windows(pc, pr) {
            v.push(Recv::window(pc, pr, s, e));
            if foreign {
                v.push(Recv::foreign_window(pc, pr, s, e));
            }
            let sampled = (s, e) == ((1, 1), (pc, pr)) || (s, e) == ((0, 0), (pc - 1, pr - 1)) || (s, e) == ((1, 0), (pc - 1, pr));
            if (nested == Nest::All || (nested == Nest::Sample && sampled)) && e.0 > s.0 && e.1 > s.1 {
                let (wc, wr) = (e.0 - s.0, e.1 - s.1);
                for (s2, e2) in windows(wc, wr) {
                    v.push(Recv::nested(pc, pr, s, e, s2, e2));
                }
            }
        }
    }
    v
}

/// Compares the whole parent with the expected model; returns a description of the first
/// difference.
pub fn diff_parent(t: &TooDee<Kt>, m: &Model<(u8, u16)>) -> Option<String> {
    if (t.num_cols(), t.num_rows()) != (m.cols, m.rows) {
        return Some(format!("parent size {:?} vs model ({},{})", t.size(), m.cols, m.rows));
    }
    for r in 0..m.rows {
        for c in 0..m.cols {
            let x = t[(c, r)];
            if (x.key, x.tag) != *m.get(c, r) {
                return Some(format!("parent cell ({},{}) holds tag {} but tag {} is expected; parent {:?}, expected {:?}", c, r, x.tag, m.get(c, r).1, tags(t).iter().map(|x| x.1).collect::<Vec<_>>(), m.flat().iter().map(|x| x.1).collect::<Vec<_>>()));
            }
        }
    }
    None
}

/// Writes `w` (a window-sized model) back into the parent model at rectangle `rect`.
pub fn splice(parent: &Model<(u8, u16)>, rect: (Coordinate, Coordinate), w: &Model<(u8, u16)>) -> Model<(u8, u16)> {
    let mut p = parent.clone();
    let (s, _) = rect;
    for r in 0..w.rows {
        for c in 0..w.cols {
            p.cells[s.1 + r][s.0 + c] = *w.get(c, r);
        }
    }
    p
}
