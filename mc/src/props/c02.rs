//! C02 - checked access reaches exactly the addressed cell or panics (bounded-exhaustive).

use toodee::{Coordinate, TooDee, TooDeeOps, TooDeeOpsMut, TooDeeView, TooDeeViewMut};

use super::views::win_size;
use crate::engine::util::{huge_fixed, huge_for_mul, shapes, windows};
use crate::engine::{guarded, Case, Ctx, Profile, Prop, Tier};

pub struct C02P;
pub static C02: C02P = C02P;

type Win = (Coordinate, Coordinate);
type Probe = (&'static str, Result<Option<usize>, String>);

fn addr<T>(r: &T) -> usize {
    r as *const T as usize
}

fn probe_ro<V: TooDeeOps<u32>>(v: &V, c: usize, r: usize, in_range: bool) -> Vec<Probe> {
    let mut out: Vec<Probe> = vec![
        ("[(c,r)]", guarded(|| Some(addr(&v[(c, r)])))),
        ("[r][c]", guarded(|| Some(addr(&v[r][c])))),
        ("col(c)[r]", guarded(|| Some(addr(&v.col(c)[r])))),
    ];
    if in_range {
        out.push(("get_unchecked", guarded(|| Some(addr(unsafe { v.get_unchecked((c, r)) })))));
        out.push(("get_unchecked_row[c]", guarded(|| Some(addr(&unsafe { v.get_unchecked_row(r) }[c])))));
    }
    out
}

fn probe_rw<V: TooDeeOpsMut<u32>>(v: &mut V, c: usize, r: usize, in_range: bool) -> Vec<Probe> {
    let mut out: Vec<Probe> = Vec::new();
    out.push(("mut [(c,r)]", guarded(|| Some(addr(&mut v[(c, r)])))));
    out.push(("mut [r][c]", guarded(|| Some(addr(&mut v[r][c])))));
    out.push(("col_mut(c)[r]", guarded(|| Some(addr(&v.col_mut(c)[r])))));
    out.push(("mut col_mut(c)[r]", guarded(|| Some(addr(&mut v.col_mut(c)[r])))));
    if in_range {
        out.push(("get_unchecked_mut", guarded(|| Some(addr(unsafe { v.get_unchecked_mut((c, r)) })))));
        out.push(("get_unchecked_row_mut[c]", guarded(|| Some(addr(&unsafe { v.get_unchecked_row_mut(r) }[c])))));
    }
    out
}

fn judge(cs: &mut Case, probes: Vec<Probe>, in_range: bool, col_ok: bool, expect: usize, coord: Coordinate) {
    for (name, res) in probes {
        let iter_style = name.contains("nth");
        match (in_range, res) {
            (true, Ok(Some(a))) => {
                if a != expect {
                    cs.fail(&format!("access:wrong-cell:{}", name), format!("{} at {:?} reached address {:#x}, expected {:#x} (offset {} elements)", name, coord, a, expect, (a as isize - expect as isize) / 4));
                }
            }
            (true, Ok(None)) => cs.fail(&format!("access:none-in-range:{}", name), format!("{} at {:?} returned None for an in-range coordinate", name, coord)),
            (true, Err(m)) => cs.fail(&format!("access:panics-in-range:{}", name), format!("{} at {:?} panicked for an in-range coordinate: {}", name, coord, m)),
            (false, Err(_)) => {}
            (false, Ok(None)) if iter_style && (col_ok || name.starts_with("rows")) => {}
            (false, Ok(x)) => cs.fail(
                &format!("access:no-panic-out-of-range:{}", name),
                format!("{} at {:?} returned {:x?} for an out-of-range coordinate instead of panicking", name, coord, x),
            ),
        }
    }
}

fn coords(c: usize, r: usize, stride: usize, col_slice_len: usize) -> Vec<Coordinate> {
    let mut v = Vec::new();
    for x in 0..=c + 1 {
        for y in 0..=r + 1 {
            v.push((x, y));
        }
    }
    let hr = huge_for_mul(&[stride.max(1)], col_slice_len + 1, r);
    for x in 0..=c {
        for &h in &hr {
            v.push((x, h));
        }
    }
    let hc = huge_for_mul(&[stride.max(1)], 1, c);
    for y in 0..=r {
        for &h in hc.iter() {
            v.push((h, y));
        }
    }
    for h in huge_fixed() {
        v.push((h, h));
    }
    v
}

impl Prop for C02P {
    fn id(&self) -> &'static str {
        "C02"
    }
    fn level(&self) -> &'static str {
        "exploration"
    }
    fn profiles(&self, _tier: Tier) -> Vec<Profile> {
        vec![Profile::Chk, Profile::Wrap]
    }
    fn units(&self, tier: Tier) -> Vec<String> {
        let n = tier.pick(4, 8);
        let mut v = Vec::new();
        for (c, r) in shapes(n) {
            v.push(format!("O {}x{}", c, r));
            v.push(format!("V {}x{}", c, r));
            v.push(format!("M {}x{}", c, r));
            v.push(format!("DV {}x{}", c, r));
            v.push(format!("DM {}x{}", c, r));
            v.push(format!("DLV {}x{}", c, r));
            v.push(format!("DLM {}x{}", c, r));
        }
        let nn = tier.pick(3, 5);
        for (c, r) in shapes(nn) {
            if c >= 2 && r >= 2 || tier == Tier::Thorough {
                for (i, _) in windows(c, r).iter().enumerate() {
                    v.push(format!("NV {}x{} {}", c, r, i));
                    v.push(format!("NM {}x{} {}", c, r, i));
                    v.push(format!("MV {}x{} {}", c, r, i));
                }
            }
        }
        for (c, r) in crate::engine::util::shapes(3) {
            if c > 0 {
                v.push(format!("survivors {}x{}", c, r));
            }
        }
        for (c, r) in super::hugezst::shapes() {
            v.push(format!("hugezst {}x{}", c, r));
        }
        v
    }
    fn run_unit(&self, unit: &str, ctx: &mut Ctx) {
        let parts: Vec<&str> = unit.split(' ').collect();
        if parts[0] == "hugezst" {
            let (c, r) = super::hugezst::parse_shape(parts[1]);
            run_huge_zst(c, r, ctx);
            return;
        }
        if parts[0] == "survivors" {
            let (a, b) = parts[1].split_once('x').unwrap();
            run_survivors(a.parse().unwrap(), b.parse().unwrap(), ctx);
            return;
        }
        let (pc, pr) = {
            let (a, b) = parts[1].split_once('x').unwrap();
            (a.parse::<usize>().unwrap(), b.parse::<usize>().unwrap())
        };
        let kind = parts[0];
        match kind {
            "O" | "DV" | "DM" | "DLV" | "DLM" => run_recv(kind, pc, pr, None, None, ctx),
            "V" | "M" => {
                for w in windows(pc, pr) {
                    run_recv(kind, pc, pr, Some(w), None, ctx);
                }
            }
            _ => {
                let w1 = windows(pc, pr)[parts[2].parse::<usize>().unwrap()];
                let sz = win_size(w1.0, w1.1);
                for w2 in windows(sz.0, sz.1) {
                    run_recv(kind, pc, pr, Some(w1), Some(w2), ctx);
                }
            }
        }
    }
    fn rule(&self) -> String {
        "for every receiver (owned arrays of every shape; TooDeeView and TooDeeViewMut over every window of every parent; views of views (view of view, view_mut of view_mut, view of view_mut); views built directly over a slice, exact or with surplus cells) and every coordinate in (0..=dim+1)^2 plus huge values \
         (the fixed set 2^31, 2^32, 2^63, usize::MAX/2, MAX/2+1, MAX-1, MAX and every out-of-range index whose product with the receiver's stride wraps back into the column slice): \
         in range => x[(c,r)], x[r][c], col(c)[r], their mutable forms (IndexMut, col_mut(c)[r] through Index and IndexMut) and the four unchecked getters all yield the ADDRESS of the expected root cell; \
         out of range => every checked accessor panics and the root is unchanged. \
         Arrays of () with close to usize::MAX cells (usize::MAX x 1, 1 x usize::MAX, MAX/k x k, 2^32 x (2^32-1), ...) and their windows: every accessor must accept the four corner coordinates (and their neighbours) and reject every coordinate just outside or far outside - the offset arithmetic must not overflow for a cell that exists. \
         Owned arrays reached through a history are covered too: every array of owning elements (shapes up to 3x3) that survives an operation in which the k-th call into caller code (iterator, Clone, Drop, comparator, key function) panicked and was caught - every operation instance and every k, and the fault-free runs - is probed the same way: every in-range coordinate must denote data()[row*num_cols()+col] through all six checked accessors, every other coordinate must panic. \
         A case is (receiver, coordinate) with all accessors probed; non-trivial = in-range coordinate; distinct by (receiver, coordinate)."
            .into()
    }
    fn bound(&self, tier: Tier) -> String {
        format!("shapes and parents up to {0}x{0}, all windows; nested windows of parents up to {1}x{1}", tier.pick(4, 8), tier.pick(3, 5))
    }
}

fn run_recv(kind: &str, pc: usize, pr: usize, w1: Option<Win>, w2: Option<Win>, ctx: &mut Ctx) {
    // absolute rectangle and size of the receiver
    let mut abs = (0usize, 0usize);
    let mut size = (pc, pr);
    for w in [w1, w2].iter().flatten() {
        abs = (abs.0 + w.0 .0, abs.1 + w.0 .1);
        size = win_size(w.0, w.1);
    }
    let (c, r) = size;
    let stride = pc;
    let col_slice_len = if r == 0 { 0 } else { (r - 1) * stride + 1 };
    for (x, y) in coords(c, r, stride, col_slice_len) {
        ctx.case(
            || format!("{} {}x{} {:?} {:?} at ({},{})", kind, pc, pr, w1, w2, x, y),
            |cs| {
                // DLV / DLM: the view is built directly over a slice with surplus cells
                let long = kind == "DLV" || kind == "DLM";
                let (rc, rr) = if !long { (pc, pr) } else if pc == 0 { (1, 1) } else { (pc, pr + 1) };
                let mut rt: TooDee<u32> = TooDee::from_vec(rc, rr, (0..(rc * rr) as u32).collect());
                let base = rt.data().as_ptr() as usize;
                let in_range = x < c && y < r;
                let col_ok = x < c;
                if in_range {
                    cs.nontrivial((kind, pc, pr, w1, w2, x, y));
                }
                cs.outcome(if in_range { "in-range" } else { "out-of-range" });
                let off = abs.1.wrapping_add(y).wrapping_mul(stride).wrapping_add(abs.0).wrapping_add(x);
                let expect = base.wrapping_add(off.wrapping_mul(4));
                let mut probes: Vec<Probe> = Vec::new();
                match kind {
                    "O" => {
                        probes.extend(probe_ro(&rt, x, y, in_range));
                        probes.extend(probe_rw(&mut rt, x, y, in_range));
                    }
                    "V" => {
                        let w = w1.unwrap();
                        probes.extend(probe_ro(&rt.view(w.0, w.1), x, y, in_range));
                    }
                    "M" => {
                        let w = w1.unwrap();
                        let mut v = rt.view_mut(w.0, w.1);
                        probes.extend(probe_ro(&v, x, y, in_range));
                        probes.extend(probe_rw(&mut v, x, y, in_range));
                    }
                    "NV" => {
                        let (a, b) = (w1.unwrap(), w2.unwrap());
                        let v1 = rt.view(a.0, a.1);
                        probes.extend(probe_ro(&v1.view(b.0, b.1), x, y, in_range));
                    }
                    "MV" => {
                        // a read-only view taken from a mutable view
                        let (a, b) = (w1.unwrap(), w2.unwrap());
                        let v1 = rt.view_mut(a.0, a.1);
                        probes.extend(probe_ro(&v1.view(b.0, b.1), x, y, in_range));
                    }
                    "NM" => {
                        let (a, b) = (w1.unwrap(), w2.unwrap());
                        let mut v1 = rt.view_mut(a.0, a.1);
                        let mut v = v1.view_mut(b.0, b.1);
                        probes.extend(probe_ro(&v, x, y, in_range));
                        probes.extend(probe_rw(&mut v, x, y, in_range));
                    }
                    "DV" | "DLV" => {
                        let v = TooDeeView::new(pc, pr, rt.data());
                        probes.extend(probe_ro(&v, x, y, in_range));
                    }
                    "DM" | "DLM" => {
                        let mut v = TooDeeViewMut::new(pc, pr, rt.data_mut());
                        probes.extend(probe_ro(&v, x, y, in_range));
                        probes.extend(probe_rw(&mut v, x, y, in_range));
                    }
                    other => panic!("unknown receiver kind {}", other),
                }
                judge(cs, probes, in_range, col_ok, expect, (x, y));
                if rt.data().iter().enumerate().any(|(i, v)| *v != i as u32) || rt.size() != (rc, rr) {
                    cs.fail("access:modified", format!("array changed by pure accesses: {:?}", rt.data()));
                }
            },
        );
    }
}

/// Owned arrays that survived a caught panic in caller code (or a fault-free operation): the checked accessors
/// must still agree with data() on every in-range coordinate and reject every other one.
fn run_survivors(c: usize, r: usize, ctx: &mut Ctx) {
    use crate::engine::ledger::Tracked;
    super::c11::for_each_survivor(c, r, ctx, &mut |mut t: TooDee<Tracked>, what: &str, cs: &mut Case| {
        let (nc, nr) = (t.num_cols(), t.num_rows());
        let len = t.data().len();
        if nc.checked_mul(nr).map_or(true, |p| p > len) {
            cs.fail("access:no-such-cell", format!("{}: the array reports size ({},{}) but data() has {} cells - in-range coordinates do not denote a cell of data()", what, nc, nr, len));
            std::mem::forget(t);
            return;
        }
        let base = t.data().as_ptr() as usize;
        let sz = std::mem::size_of::<Tracked>();
        for row in 0..=nr + 1 {
            for col in 0..=nc + 1 {
                let in_range = col < nc && row < nr;
                let exp = base.wrapping_add((row.wrapping_mul(nc).wrapping_add(col)).wrapping_mul(sz));
                let probes: [(&str, Result<usize, String>); 6] = [
                    ("[(c,r)]", guarded(|| &t[(col, row)] as *const Tracked as usize)),
                    ("[r][c]", guarded(|| &t[row][col] as *const Tracked as usize)),
                    ("col(c)[r]", guarded(|| &t.col(col)[row] as *const Tracked as usize)),
                    ("mut [(c,r)]", guarded(|| &mut t[(col, row)] as *mut Tracked as usize)),
                    ("mut [r][c]", guarded(|| &mut t[row][col] as *mut Tracked as usize)),
                    ("mut col_mut(c)[r]", guarded(|| &mut t.col_mut(col)[row] as *mut Tracked as usize)),
                ];
                for (name, got) in probes {
                    match (in_range, got) {
                        (true, Ok(a)) if a == exp => {}
                        (true, Ok(a)) => cs.fail(&format!("access:wrong-cell:{}", name), format!("{}: ({},{}) through {} is at {:#x}, data()[{}] is at {:#x}", what, col, row, name, a, row * nc + col, exp)),
                        (true, Err(m)) => cs.fail(&format!("access:panics-in-range:{}", name), format!("{}: ({},{}) through {} panicked: {}", what, col, row, name, m)),
                        (false, Ok(_)) => cs.fail(&format!("access:no-panic-out-of-range:{}", name), format!("{}: ({},{}) is outside ({},{}) but {} returned", what, col, row, nc, nr, name)),
                        (false, Err(_)) => {}
                    }
                }
            }
        }
        if nc * nr != len || (nc == 0) != (nr == 0) {
            std::mem::forget(t);
        }
    });
}

/// Arrays of () with close to usize::MAX cells and their windows: the accessors' offset arithmetic must not
/// overflow for a cell that exists, and must still reject every coordinate outside. (Addresses of zero-sized
/// cells carry no information: only accept / reject is compared.)
fn run_huge_zst(c: usize, r: usize, ctx: &mut Ctx) {
    fn ro<V: TooDeeOps<()>>(v: &V, x: usize, y: usize, in_range: bool) -> Vec<(&'static str, Result<(), String>)> {
        let mut out = vec![
            ("[(c,r)]", guarded(|| {
                let _ = &v[(x, y)];
            })),
            ("[r][c]", guarded(|| {
                let _ = &v[y][x];
            })),
            ("col(c)[r]", guarded(|| {
                let _ = &v.col(x)[y];
            })),
        ];
        if in_range {
            out.push(("get_unchecked", guarded(|| {
                let _ = unsafe { v.get_unchecked((x, y)) };
            })));
            out.push(("get_unchecked_row[c]", guarded(|| {
                let _ = &unsafe { v.get_unchecked_row(y) }[x];
            })));
        }
        out
    }
    fn rw<V: TooDeeOpsMut<()>>(v: &mut V, x: usize, y: usize, in_range: bool) -> Vec<(&'static str, Result<(), String>)> {
        let mut out = vec![
            ("mut [(c,r)]", guarded(|| v[(x, y)] = ())),
            ("mut [r][c]", guarded(|| v[y][x] = ())),
            ("mut col_mut(c)[r]", guarded(|| v.col_mut(x)[y] = ())),
        ];
        if in_range {
            out.push(("get_unchecked_mut", guarded(|| unsafe { *v.get_unchecked_mut((x, y)) = () })));
            out.push(("get_unchecked_row_mut[c]", guarded(|| unsafe { v.get_unchecked_row_mut(y)[x] = () })));
        }
        out
    }
    for (s, e) in super::hugezst::windows(c, r) {
        let (wc, wr) = (e.0 - s.0, e.1 - s.1);
        let mut coords: Vec<(usize, usize)> = Vec::new();
        for x in [0, 1, wc / 2, wc.saturating_sub(2), wc - 1, wc, wc.wrapping_add(1), usize::MAX / 2, usize::MAX] {
            for y in [0, 1, wr / 2, wr.saturating_sub(2), wr - 1, wr, wr.wrapping_add(1), usize::MAX / 2, usize::MAX] {
                coords.push((x, y));
            }
        }
        coords.sort_unstable();
        coords.dedup();
        for (x, y) in coords {
            for kind in 0..3u8 {
                if kind == 0 && (s, e) != ((0, 0), (c, r)) {
                    continue;
                }
                let name = ["TooDee<()>", "view", "view_mut"][kind as usize];
                ctx.case(
                    || format!("TooDee<()> {}x{} window {:?}-{:?} as {} at ({},{})", c, r, s, e, name, x, y),
                    |cs| {
                        let in_range = x < wc && y < wr;
                        if in_range {
                            cs.nontrivial((c, r, s, e, kind, x, y));
                        }
                        cs.outcome(if in_range { "in-range" } else { "out-of-range" });
                        let mut t: TooDee<()> = super::hugezst::array(c, r);
                        let probes = match kind {
                            0 => {
                                let mut p = ro(&t, x, y, in_range);
                                p.extend(rw(&mut t, x, y, in_range));
                                p
                            }
                            1 => match guarded(|| t.view(s, e)) {
                                Ok(v) => ro(&v, x, y, in_range),
                                Err(m) => {
                                    cs.fail("access:panics-in-range:view", format!("view({:?},{:?}) panicked: {}", s, e, m));
                                    return;
                                }
                            },
                            _ => match guarded(|| t.view_mut(s, e)) {
                                Ok(mut v) => {
                                    let mut p = ro(&v, x, y, in_range);
                                    p.extend(rw(&mut v, x, y, in_range));
                                    p
                                }
                                Err(m) => {
                                    cs.fail("access:panics-in-range:view_mut", format!("view_mut({:?},{:?}) panicked: {}", s, e, m));
                                    return;
                                }
                            },
                        };
                        for (acc, res) in probes {
                            match (in_range, res) {
                                (true, Err(m)) => cs.fail(&format!("access:panics-in-range:{}", acc), format!("{} at ({},{}) of the {}x{} window panicked: {}", acc, x, y, wc, wr, m)),
                                (false, Ok(())) => cs.fail(&format!("access:no-panic-out-of-range:{}", acc), format!("{} at ({},{}) of the {}x{} window returned", acc, x, y, wc, wr)),
                                _ => {}
                            }
                        }
                    },
                );
            }
        }
    }
}
