//! C12 - leaking a drain, iterator or view leaves a valid array (fault enumeration over
//! "the destructor never ran" at every stage of consumption).

use toodee::{TooDee, TooDeeOps, TooDeeOpsMut};

use super::elem::Elem;
use super::exam::{exam, ledger_ok};
use crate::engine::ledger::{Tracked, TrackedZst};
use crate::engine::util::{shapes, windows};
use crate::engine::{guarded, Ctx, Profile, Prop, Tier};

pub struct C12P;
pub static C12: C12P = C12P;

#[derive(Clone, Debug, Hash, PartialEq, Eq)]
enum Leak {
    /// 0 remove_row, 1 pop_row, 2 remove_col, 3 pop_col; index
    Drain(u8, usize),
    Rows,
    RowsMut,
    Col(usize),
    ColMut(usize),
    Cells,
    CellsMut,
    View((usize, usize), (usize, usize)),
    ViewMut((usize, usize), (usize, usize)),
    /// a view of a leaked view_mut, leaked too
    NestedViewMut((usize, usize), (usize, usize)),
    IntoIter,
}

fn leaks_for(c: usize, r: usize) -> Vec<Leak> {
    let mut v = Vec::new();
    for i in 0..r {
        v.push(Leak::Drain(0, i));
    }
    v.push(Leak::Drain(1, 0));
    for i in 0..c {
        v.push(Leak::Drain(2, i));
    }
    v.push(Leak::Drain(3, 0));
    v.push(Leak::Rows);
    v.push(Leak::RowsMut);
    for i in 0..c {
        v.push(Leak::Col(i));
        v.push(Leak::ColMut(i));
    }
    v.push(Leak::Cells);
    v.push(Leak::CellsMut);
    for (s, e) in windows(c, r) {
        v.push(Leak::View(s, e));
        v.push(Leak::ViewMut(s, e));
        v.push(Leak::NestedViewMut(s, e));
    }
    v.push(Leak::IntoIter);
    v
}

/// How many items the leaked value can yield.
fn capacity_of(l: &Leak, c: usize, r: usize) -> usize {
    match l {
        Leak::Drain(0, _) | Leak::Drain(1, _) => c,
        Leak::Drain(_, _) => r,
        Leak::Rows | Leak::RowsMut => r,
        Leak::Col(_) | Leak::ColMut(_) => r,
        Leak::Cells | Leak::CellsMut | Leak::IntoIter => c * r,
        _ => 0,
    }
}

impl Prop for C12P {
    fn id(&self) -> &'static str {
        "C12"
    }
    fn level(&self) -> &'static str {
        "fault_enumeration"
    }
    fn profiles(&self, _tier: Tier) -> Vec<Profile> {
        vec![Profile::Chk, Profile::Wrap, Profile::Rel]
    }
    fn units(&self, tier: Tier) -> Vec<String> {
        let mut v = Vec::new();
        for (c, r) in shapes(tier.pick(6, 12)) {
            for tag in ["T", "U", "Z"] {
                v.push(format!("{} {}x{}", tag, c, r));
            }
        }
        v
    }
    fn run_unit(&self, unit: &str, ctx: &mut Ctx) {
        let (tag, dims) = unit.split_once(' ').unwrap();
        let (c, r) = dims.split_once('x').unwrap();
        let (c, r): (usize, usize) = (c.parse().unwrap(), r.parse().unwrap());
        for leak in leaks_for(c, r) {
            let cap = capacity_of(&leak, c, r);
            // splits: every (front, back) with f + b <= cap; for cells / into_iter only a band of splits
            let mut splits: Vec<(usize, usize)> = Vec::new();
            for f in 0..=cap {
                for b in 0..=(cap - f) {
                    if cap > 8 && f > 2 && b > 2 && f + b < cap {
                        continue;
                    }
                    splits.push((f, b));
                }
            }
            // past: 0 = leak right after the split; 1 = the value was first asked for more after it was exhausted
            // (it has reported None from both ends); 2 / 3 = a fresh value was made to jump past its end with nth / nth_back
            let mut jobs: Vec<(usize, usize, u8)> = Vec::new();
            for (f, b) in splits {
                jobs.push((f, b, 0));
                if f + b == cap && !matches!(leak, Leak::View(..) | Leak::ViewMut(..) | Leak::NestedViewMut(..)) {
                    jobs.push((f, b, 1));
                }
            }
            if !matches!(leak, Leak::View(..) | Leak::ViewMut(..) | Leak::NestedViewMut(..)) {
                jobs.push((0, 0, 2));
                jobs.push((0, 0, 3));
            }
            for (f, b, past) in jobs {
                for spare in [false, true] {
                    match tag {
                        "T" => run_leak::<Tracked>(&leak, c, r, f, b, past, spare, ctx),
                        "U" => run_leak::<u32>(&leak, c, r, f, b, past, spare, ctx),
                        _ => run_leak::<TrackedZst>(&leak, c, r, f, b, past, spare, ctx),
                    }
                }
            }
        }
    }
    fn page_guard(&self, tier: Tier, profile: Profile) -> bool {
        let _ = (tier, profile);
        true
    }
    fn rule(&self) -> String {
        "every value the API returns that has a destructor or holds a borrow - DrainRow and DrainCol via remove_row/remove_col at every index and pop_row/pop_col, Rows, RowsMut, Col, ColMut (every column), Cells, CellsMut, TooDeeView and TooDeeViewMut of every window (and a nested view_mut of a leaked view_mut), IntoIter - on TooDee<Tracked>, TooDee<u32> (no drop glue) and TooDee<zero-sized> of every shape in the bound, exact and spare capacity, \
         consumed by every (front, back) split - and, once exhausted, asked for more from both ends, or made to jump past the end with nth / nth_back - and then passed to mem::forget (items taken out are held and dropped later). Afterwards: shape invariant; every reachable cell live, canary-valid and pairwise distinct; the array is read through Index/rows/cells/col, two cells replaced, rows and columns pushed, inserted, removed and popped, then dropped; no double drop and no drop of a never-constructed value (the array may have lost elements, up to being empty). For IntoIter only the ledger clause applies. \
         A case is (shape, capacity, leaked value, front, back); non-trivial = non-empty array; distinct by the tuple."
            .into()
    }
    fn bound(&self, tier: Tier) -> String {
        format!("shapes up to {0}x{0}", tier.pick(6, 12))
    }
    fn assumptions(&self) -> Vec<String> {
        vec!["leaked elements are never reported (the property allows the array to lose elements)".into()]
    }
}

fn run_leak<E: Elem>(leak: &Leak, c: usize, r: usize, f: usize, b: usize, past: u8, spare: bool, ctx: &mut Ctx) {
    let cap = capacity_of(leak, c, r);
    ctx.case(
        || {
            format!(
                "TooDee<{}> {}x{} {}: take {} from the front and {} from the back of {:?}{}, then mem::forget it",
                E::NAME,
                c,
                r,
                if spare { "spare" } else { "exact" },
                f,
                b,
                leak,
                ["", ", ask the exhausted value for more from both ends (None)", ", jump past the end with nth(len)", ", jump past the end with nth_back(len)"][past as usize]
            )
        },
        |cs| {
            let labels: Vec<u32> = (0..(c * r) as u32).collect();
            let mut t: TooDee<E> = super::array_bfs::materialize(c, r, &labels, spare);
            if c > 0 {
                cs.nontrivial((E::NAME, c, r, spare, leak, f, b, past));
            }
            cs.outcome(match leak {
                Leak::Drain(..) => "leaked-drain",
                Leak::View(..) | Leak::ViewMut(..) | Leak::NestedViewMut(..) => "leaked-view",
                Leak::IntoIter => "leaked-into_iter",
                _ => "leaked-iterator",
            });
            let mut held: Vec<E> = Vec::new();
            let mut gone = false;
            macro_rules! take_forget_owned {
                ($it:expr) => {{
                    let mut it = $it;
                    for _ in 0..f {
                        if let Some(e) = it.next() {
                            held.push(e);
                        }
                    }
                    for _ in 0..b {
                        if let Some(e) = it.next_back() {
                            held.push(e);
                        }
                    }
                    match past {
                        1 => {
                            held.extend(it.next());
                            held.extend(it.next_back());
                        }
                        2 => held.extend(it.nth(cap)),
                        3 => held.extend(it.nth_back(cap)),
                        _ => {}
                    }
                    std::mem::forget(it);
                }};
            }
            macro_rules! take_forget_ref {
                ($it:expr) => {{
                    let mut it = $it;
                    for _ in 0..f {
                        let _ = it.next();
                    }
                    for _ in 0..b {
                        let _ = it.next_back();
                    }
                    match past {
                        1 => {
                            let _ = it.next();
                            let _ = it.next_back();
                        }
                        2 => {
                            let _ = it.nth(cap);
                        }
                        3 => {
                            let _ = it.nth_back(cap);
                        }
                        _ => {}
                    }
                    std::mem::forget(it);
                }};
            }
            let res = guarded(|| match leak {
                Leak::Drain(0, i) => take_forget_owned!(t.remove_row(*i)),
                Leak::Drain(1, _) => {
                    if let Some(d) = t.pop_row() {
                        take_forget_owned!(d)
                    }
                }
                Leak::Drain(2, i) => take_forget_owned!(t.remove_col(*i)),
                Leak::Drain(_, _) => {
                    if let Some(d) = t.pop_col() {
                        take_forget_owned!(d)
                    }
                }
                Leak::Rows => take_forget_ref!(t.rows()),
                Leak::RowsMut => take_forget_ref!(t.rows_mut()),
                Leak::Col(i) => take_forget_ref!(t.col(*i)),
                Leak::ColMut(i) => take_forget_ref!(t.col_mut(*i)),
                Leak::Cells => take_forget_ref!(t.cells()),
                Leak::CellsMut => take_forget_ref!(t.cells_mut()),
                Leak::View(s, e) => std::mem::forget(t.view(*s, *e)),
                Leak::ViewMut(s, e) => std::mem::forget(t.view_mut(*s, *e)),
                Leak::NestedViewMut(s, e) => {
                    let mut v = t.view_mut(*s, *e);
                    let (vc, vr) = v.size();
                    std::mem::forget(v.view_mut((0, 0), (vc, vr)));
                    std::mem::forget(v);
                }
                Leak::IntoIter => {
                    let owned = std::mem::take(&mut t);
                    gone = true;
                    take_forget_owned!(owned.into_iter())
                }
            });
            if let Err(e) = res {
                cs.fail("leak:panic", format!("taking items and forgetting the value panicked: {}", e));
                std::mem::forget(t);
                return;
            }
            let what = format!("after mem::forget of {:?} ({} front, {} back taken)", leak, f, b);
            if held.iter().any(|e| !e.sane()) {
                cs.fail("leak:dead-item", format!("{}: an item handed out before the leak is dead", what));
            }
            if gone {
                drop(t);
            } else {
                exam(t, cs, &what);
            }
            drop(held);
            ledger_ok(cs, &format!("{} and dropping the items taken", what));
        },
    );
}
