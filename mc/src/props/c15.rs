//! C15 - translate and flip are the stated bijections on cell positions (bounded-exhaustive).

use toodee::{TooDee, TooDeeOps};

use super::ops::{apply_op, Op};
use super::recv::{diff_parent, model_of_kt, parent_kt, splice, Recv};
use crate::engine::util::{huge_fixed, shapes};
use crate::engine::{guarded, Ctx, Profile, Prop, Tier};
use crate::with_recv;

pub struct C15P;
pub static C15: C15P = C15P;

fn n_for(t: Tier) -> usize {
    t.pick(10, 32)
}

impl Prop for C15P {
    fn id(&self) -> &'static str {
        "C15"
    }
    fn level(&self) -> &'static str {
        "exploration"
    }
    fn profiles(&self, _tier: Tier) -> Vec<Profile> {
        vec![Profile::Chk, Profile::Wrap]
    }
    fn units(&self, tier: Tier) -> Vec<String> {
        let n = n_for(tier);
        let mut v = Vec::new();
        for (c, r) in shapes(n) {
            v.push(Recv::owned(c, r).enc());
            v.push(Recv::foreign_owned(c, r).enc());
            v.push(Recv::direct_long(c, r).enc());
            // interior window of a (c+2) x (r+2) parent
            v.push(Recv::window(c + 2, r + 2, (1, 1), (1 + c, 1 + r)).enc());
            if c <= 5 && r <= 5 {
                // window touching the right/bottom edges, and a nested window
                v.push(Recv::window(c + 1, r + 1, (1, 1), (1 + c, 1 + r)).enc());
                v.push(Recv::nested(c + 3, r + 2, (1, 0), (c + 3, r + 2), (1, 1), (1 + c, 1 + r)).enc());
                v.push(Recv::foreign_window(c + 2, r + 1, (1, 0), (1 + c, r)).enc());
                // a band of rows spanning the full width of a NARROW outer window
                if c > 0 {
                    v.push(Recv::nested(c + 2, r + 2, (1, 0), (1 + c, r + 2), (0, 1), (c, 1 + r)).enc());
                }
                v.push(format!("zst {}x{}", c, r));
            }
        }
        // long lines: row counts with many / long cycles (gcd(R, R-mr) up to 50) and widths beyond the block sizes
        // of chunked loops, owned and as an interior window
        for (c, r) in long_shapes(tier) {
            v.push(Recv::owned(c, r).enc());
            v.push(Recv::window(c + 2, r + 2, (1, 1), (1 + c, 1 + r)).enc());
        }
        for (c, r) in super::hugezst::shapes() {
            v.push(format!("hugezst {}x{}", c, r));
        }
        v
    }
    fn run_unit(&self, unit: &str, ctx: &mut Ctx) {
        if let Some(dims) = unit.strip_prefix("hugezst ") {
            let (c, r) = super::hugezst::parse_shape(dims);
            run_huge_zst(c, r, ctx);
            return;
        }
        if let Some(dims) = unit.strip_prefix("zst ") {
            let (c, r) = dims.split_once('x').unwrap();
            let (c, r): (usize, usize) = (c.parse().unwrap(), r.parse().unwrap());
            let mut ops: Vec<Op> = vec![Op::FlipRows, Op::FlipCols];
            for mc in 0..=c + 2 {
                for mr in 0..=r + 2 {
                    ops.push(Op::Translate(mc, mr));
                }
            }
            ops.push(Op::Translate(usize::MAX, 0));
            ops.push(Op::Translate(0, usize::MAX));
            super::ops::zst_panic_differential(c, r, &ops, ctx);
            return;
        }
        let rd = Recv::parse(unit);
        let (c, r) = rd.size();
        let rect = rd.rect();
        let mut ops: Vec<Op> = Vec::new();
        for mc in 0..=c + 1 {
            for mr in 0..=r + 1 {
                ops.push(Op::Translate(mc, mr));
            }
        }
        for h in huge_fixed() {
            ops.push(Op::Translate(h, 0));
            ops.push(Op::Translate(0, h));
            ops.push(Op::Translate(h, h));
        }
        ops.push(Op::FlipRows);
        ops.push(Op::FlipCols);
        for op in ops {
            ctx.case(
                || format!("{} {:?}", rd.enc(), op),
                |cs| {
                    let mut p: TooDee<_> = parent_kt(rd.pc, rd.pr);
                    let before = model_of_kt(&p);
                    let mut w = before.window(rect.0, rect.1);
                    let valid = match &op {
                        Op::Translate(mc, mr) => {
                            if *mc <= c && *mr <= r {
                                if c > 0 {
                                    w.translate(*mc, *mr);
                                }
                                true
                            } else {
                                false
                            }
                        }
                        Op::FlipRows => {
                            w.flip_rows();
                            true
                        }
                        _ => {
                            w.flip_cols();
                            true
                        }
                    };
                    if valid && c > 0 {
                        cs.nontrivial((rd, &op));
                    }
                    let res = guarded(|| with_recv!(p, rd, |x| { apply_op(x, &op) }));
                    let expect = if valid { splice(&before, rect, &w) } else { before.clone() };
                    let d = diff_parent(&p, &expect);
                    let name = if matches!(op, Op::Translate(..)) { "translate" } else { "flip" };
                    match (valid, res) {
                        (true, Ok(())) => {
                            cs.outcome("moved");
                            if let Some(d) = d {
                                cs.fail(&format!("{}:wrong-cells", name), d);
                            }
                        }
                        (true, Err(m)) => cs.fail(&format!("{}:panics-on-valid", name), format!("valid mid but the call panicked: {}", m)),
                        (false, Err(_)) => {
                            cs.outcome("rejected");
                            if let Some(d) = d {
                                cs.fail(&format!("{}:rejected-but-modified", name), d);
                            }
                        }
                        (false, Ok(())) => cs.fail(&format!("{}:accepts-invalid", name), "mid beyond the dimensions but the call returned".into()),
                    }
                    let _ = p.size();
                },
            );
        }
    }
    fn rule(&self) -> String {
        "every shape (0..=N)^2 with unique cells, every mid in (0..=C+1) x (0..=R+1) plus huge components, on owned arrays, on a third-party implementor using only the trait defaults, on windows (interior, edge-touching, nested) of a larger parent and on views built directly over a longer slice: \
         mid <= (C,R) => new[(c,r)] == old[((c+mc) mod C, (r+mr) mod R)] for all cells (so nothing is lost or duplicated) and the parent outside a window is unchanged; a larger mid panics and changes nothing; flip_rows / flip_cols against new[(c,r)] == old[(c,R-1-r)] / old[(C-1-c,r)]. \
         Arrays and windows of the zero-sized () must accept and reject exactly the same mids as arrays of ordinary elements. A hang in the cycle-leader loop is caught by the worker watchdog. A case is (receiver, operation, mid); non-trivial = valid call on a non-empty receiver; distinct by the tuple."
            .into()
    }
    fn bound(&self, tier: Tier) -> String {
        format!("N = {} (every gcd(R, R-mr) cycle structure up to {0})", n_for(tier))
    }
}

/// Shapes with long lines.
fn long_shapes(tier: Tier) -> Vec<(usize, usize)> {
    let mut v = vec![(1, 36), (2, 36), (1, 40), (1, 48), (2, 54), (1, 64), (1, 65), (1, 72), (1, 100), (3, 40), (36, 1), (64, 2), (65, 1), (70, 2), (100, 1), (129, 2)];
    if tier == Tier::Thorough {
        v.extend([(1, 128), (1, 144), (2, 200), (1, 256), (1, 257), (256, 1), (257, 2), (300, 3)]);
    }
    v
}

/// Arrays of () with close to usize::MAX cells: the mids that leave every cell in place ((0,0), (C,0), (0,R), (C,R))
/// take constant time and must be accepted; a mid beyond a dimension must be rejected.
fn run_huge_zst(c: usize, r: usize, ctx: &mut Ctx) {
    use toodee::{TooDee, TooDeeOpsMut, TranslateOps};
    let mut mids: Vec<((usize, usize), bool)> = vec![((0, 0), true), ((c, 0), true), ((0, r), true), ((c, r), true)];
    if c < usize::MAX {
        mids.push(((c + 1, 0), false));
    }
    if r < usize::MAX {
        mids.push(((0, r + 1), false));
    }
    mids.push(((usize::MAX, usize::MAX), c == usize::MAX && r == usize::MAX));
    for (mid, valid) in mids {
        for window in [false, true] {
            ctx.case(
                || format!("TooDee<()> {}x{} {} translate_with_wrap({:?})", c, r, if window { "full-size view_mut" } else { "owned" }, mid),
                |cs| {
                    cs.nontrivial((c, r, mid, window));
                    cs.outcome(if valid { "accepted" } else { "rejected" });
                    let mut t: TooDee<()> = super::hugezst::array(c, r);
                    let res = if window { guarded(|| t.view_mut((0, 0), (c, r)).translate_with_wrap(mid)) } else { guarded(|| t.translate_with_wrap(mid)) };
                    match (valid, res) {
                        (true, Err(m)) => cs.fail("translate:panics-on-valid", format!("mid {:?} is within ({},{}) but the call panicked: {}", mid, c, r, m)),
                        (false, Ok(())) => cs.fail("translate:accepts-invalid", format!("mid {:?} is beyond ({},{}) but the call returned", mid, c, r)),
                        _ => {}
                    }
                },
            );
        }
    }
}
